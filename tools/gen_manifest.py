#!/venv/bin/python
"""Regenerates MANIFEST.json from the table below + which checks exist."""
import json
import os

ROOT = os.path.dirname(os.path.dirname(os.path.abspath(__file__)))

BASELINE_OFF = ("cd /repo && env -u CIRCUS_VERIF /venv/bin/python -m pytest -ra -q "
                "-p no:cacheprovider --timeout=900 "
                "--continue-on-collection-errors")

SIM_NOTE = ("Trusted base: the simulated kernel / psutil.Popen fake "
            "(vfw/kernel.py), checked against real processes by the "
            "conformance differential (vfw/conformance.py, run in setup_cmd "
            "and in C04's thorough tier); the virtual-time loop "
            "(vfw/simloop.py); Hypothesis 6.168. Not modelled: pid reuse, "
            "EPERM, job-control stops. Search never proves absence.")

TABLE = {
 "C07": dict(
  engine="E1-simworld", category="exploration", design_ref="DESIGN.md §4 C07",
  technique="property-based testing: generated socket sets (inet/unix/so_reuseport) and watcher command lines referring to them, lifecycle histories over several worker generations; invariant oracle on the real sockets (fileno, inode, SO_ACCEPTCONN, connect) and on the arguments / inheritable flags captured at every process creation",
  text=("Real CircusSocket objects are bound on loopback and in a scratch "
        "directory; after every generated op each must still be the same "
        "descriptor and inode, listening and connectable; every captured "
        "spawn of a use_sockets watcher must carry close_fds=False, the right "
        "descriptor number in argv and an inheritable descriptor, and plain "
        "watchers close_fds=True; circus' pre-exec function is run in a "
        "forked child that reports what it sees at the managed descriptors; "
        "a third of the daemons start from an ini file with [socket:] "
        "sections and are told to re-read it."),
  note=SIM_NOTE + " What a real child inherits after exec is the live tier's business (E3)."),
 "C08": dict(
  engine="E1-simworld", category="exploration", design_ref="DESIGN.md §4 C08",
  technique="enumeration of shutdown triggers (quit, SIGTERM, SIGINT, SIGQUIT) at every loop step of a set of in-flight operations plus Hypothesis-generated histories, on the circusd code path of the daemon over the simulated kernel with real managed sockets; Hypothesis-generated pid-file contents against Pidfile.create/unlink",
  text=("The trigger is delivered at each step of daemon start, restart, "
        "reload, incr, stop, kill and a respawning periodic check (and at "
        "random points of generated histories); within the model's bound the "
        "daemon must leave its loop, no worker may keep running, control, "
        "event and managed sockets must be closed and unix socket files "
        "gone (workers stopped by SIGSTOP and user-written stream classes "
        "without close() included). Pid files with empty, garbled, huge, own, live and dead "
        "contents must be refused iff they name another live process."),
  note=SIM_NOTE + " sys.exit status and the pid-file removal of circusd.main belong to the live tier."),
 "C16": dict(
  engine="E2-pure", category="exploration", design_ref="DESIGN.md §4 C16",
  technique="property-based testing with a constructive oracle: a generated configuration model (typed options in varied spellings, env layers, references) is rendered to ini text; get_config's result is compared with values computed from the model (documented types/defaults/precedence), plus determinism and section-reordering metamorphic relations",
  text=("Generated ini files with watcher, env, env:PATTERN (comma lists, "
        "wildcards), socket and plugin sections, all documented option types "
        "and references in any case are parsed by get_config; option values, "
        "types, defaults and each watcher's environment are compared with "
        "the model's expectation; parsing twice and re-rendering in another "
        "section order must agree."),
  note="Pure function check; daemon environment = test process environ + scratch VERIF_* variables; ini-reserved characters excluded from alphabets."),
 "C17": dict(
  engine="E1-simworld", category="exploration", design_ref="DESIGN.md §4 C17",
  technique="property-based testing with real pipes inside the simulated world: generated write-size schedules, closes, sibling deaths/respawns on 1-4 workers x 2 channels; oracle compares records received by a collecting stream with the bytes written (equality / prefix), watches for a spinning loop and counts daemon-side descriptors over worker generations",
  text=("The real Redirector reads real pipes through the loop's selector; "
        "after every generated op the records delivered to the collecting "
        "stream objects must be, per pid and channel, exactly (alive) or a "
        "prefix of (terminated) what was written, correctly labelled; a "
        "closed pipe must leave the loop idle; descriptor count must return "
        "to baseline after up to 25 worker generations; circus' pre-exec "
        "step, run in a forked child, must leave the capture pipes on the "
        "child's descriptors 1 / 2."),
  note=SIM_NOTE + " Pipes, selector and os.read are real."),
 "C18": dict(
  engine="E1-simworld", category="exploration", design_ref="DESIGN.md §4 C18",
  technique="exhaustive table (every signal name x spelling x acceptor) + Hypothesis-generated near-miss designations + generated signal/kill requests addressing own, foreign, unrelated and dead pids on a simulated kernel whose signal log is compared with the addressed set derived from its process tree",
  text=("All spellings of every member of signal.Signals are pushed through "
        "the five acceptors (exhaustive); mutated near-miss strings must be "
        "refused by each; in SimWorld, signal/kill requests with pid, "
        "childpid, children, recursive drawn from workers, descendants, other "
        "watchers, unrelated and dead pids must only ever signal workers of "
        "the named watcher or their descendants, with the designated number "
        "and the exact addressed set."),
  note=SIM_NOTE + " os.kill is globally routed to the simulated kernel (pids above pid_max), so a stray signal is recorded, never executed."),
 "C13": dict(
  engine="E1-simworld", category="exploration", design_ref="DESIGN.md §4 C13",
  technique="property-based testing with a constructive oracle: the expected argv is generated first and encoded as cmd/args with random quoting and variable references of known value (Process.format_args must decode it); plus generated SimWorld histories checking cwd/env/wid of every captured process-creation call",
  text=("Thousands of generated command lines (quotes, spaces, both "
        "reference syntaxes in any case, unknown references, literal "
        "dollars, list vs string args, shell on/off) are decoded by "
        "format_args and compared with the argv they were built from; in "
        "generated lifecycle histories (shell watchers with shell_args "
        "included) every Popen call's argument vector, cwd and env are "
        "compared with the configuration and worker ids are checked for "
        "positivity, first=1 and uniqueness among live workers."),
  note=SIM_NOTE + " What exec really receives is checked by the live tier (E3) when built."),
 "C19": dict(
  engine="E1-simworld", category="exploration", design_ref="DESIGN.md §4 C19",
  technique="property-based testing over generated watcher sets (priorities with ties, numprocesses, per-watcher and global warm-up, autostart) and start/restart sequences with injected deaths; invariant oracle over the simulated kernel's spawn log with virtual timestamps",
  text=("For the daemon start and for every generated multi-watcher "
        "sequence (start, restart, daemon-wide reload with graceful off, "
        "reloadconfig after several sections were added, socket events on "
        "on-demand watchers; delays also changed by set requests) the spawn "
        "log is checked for non-increasing "
        "priority, no interleaving between watchers, per-watcher and global "
        "warm-up gaps, and autostart=false watchers staying stopped."),
  note=SIM_NOTE),
 "C12": dict(
  engine="E1-simworld", category="exploration", design_ref="DESIGN.md §4 C12",
  technique="model-based property testing: a configuration model rendered to ini text, generated edit sequences (add/remove/set/revert/no-op, singly or several per reload) followed by reloadconfig; oracles = the model, a differential against a fresh Watcher.load_from_config of the same file, and kernel pid sets / logs",
  text=("After every generated edit + reloadconfig the daemon's list, "
        "options and live worker counts are compared with the file's model "
        "and with a fresh load of the same text; unchanged watchers must "
        "keep their pids, numprocesses-only edits must only add/remove the "
        "difference, and a no-op reload must cause no spawn or signal."),
  note=SIM_NOTE + " [circus] and socket sections fixed."),
 "C15": dict(
  engine="E1-simworld", category="exploration", design_ref="DESIGN.md §4 C15",
  technique="model-based property testing: generated add/rm/start/stop/status/reloadconfig sequences over a name pool with case variants and unusual names, against a dict model (lower-cased name -> canonical name); cross-comparison of list, numwatchers, status and stats replies",
  text=("After each generated request the four directory commands are "
        "compared with each other and with the model; requests by case "
        "variant must reach the canonical watcher, removed names must "
        "disappear (workers gone unless nostop) and be reusable, and an add "
        "answered ok must be visible."),
  note=SIM_NOTE),
 "C14": dict(
  engine="E1-simworld", category="fault_enumeration", design_ref="DESIGN.md §4 C14",
  technique="exhaustive enumeration of hook-outcome assignments (4^4 x 2^4 start-phase combinations x worker kind x numprocesses x request; stop-phase and signal-hook products) plus Hypothesis-sampled eight-hook combinations, against a reference table derived from the hook documentation",
  text=("Every combination of {absent, true, false, raise} x ignore flag "
        "over the four start-phase hooks (a superset of the stated 3^4 x "
        "2^4) is run for obedient and stubborn workers, numprocesses 1-2 and "
        "start / restart / daemon start; stop-phase and signal hooks are "
        "enumerated likewise; status, kernel-live workers, signal log and "
        "hook_success/hook_failure events are compared with the documented "
        "table."),
  note=SIM_NOTE + " Hooks are counting Python callables (documented callable form)."),
 "C11": dict(
  engine="E1-simworld", category="exploration", design_ref="DESIGN.md §4 C11",
  technique="metamorphic property testing: valid circusctl-shaped requests corrupted by generated mutations (dropped/ill-typed properties, unknown names/keys, bad values at every position, bad signals, case-duplicates, conflicts, owner mismatch, broken JSON); relation = a synchronously refused request leaves the protocol-visible snapshot and kernel logs unchanged",
  text=("For every generated corrupted request answered with an error "
        "before handle_message returns, the snapshot (list, numwatchers, "
        "statuses, options, numprocesses, pids, kernel spawn/signal log "
        "lengths, event count) taken immediately before equals the one taken "
        "immediately after, in states with and without an operation in "
        "flight and in endpoint-owner mode."),
  note=SIM_NOTE + " No claim is made when the daemon answers ok or later."),
 "C10": dict(
  engine="E1-simworld", category="exploration", design_ref="DESIGN.md §4 C10",
  technique="enumeration of request pairs (A x B x every progress point of A) plus Hypothesis-generated request histories; oracle = replies on the recording stream, synchronous snapshot of kernel logs around refused requests, exclusive probe after quiescence",
  text=("Each exclusive command A (long, failing synchronously or "
        "asynchronously) is overlapped by each exclusive command B and by the "
        "periodic check at every timer step of A; B must be refused "
        "(conflict or validation error) without effect while A is parked, A "
        "must get exactly one reply, and an exclusive probe must be accepted "
        "once the daemon is quiescent."),
  note=SIM_NOTE + " 'In flight' is decided conservatively from outside (A unanswered before and after B at the same instant)."),
 "C05": dict(
  engine="E1-simworld", category="exploration", design_ref="DESIGN.md §4 C05",
  technique="property-based testing of overlapping request histories on a virtual clock: blocked-time meter on the patched time.sleep, synchronous-reply oracle for read-only requests, and a model-computed virtual-time bound that turns 'every request completes' into a safety check",
  text=("Generated histories overlap exclusive and non-exclusive requests "
        "with stubborn workers, hooks, exec failures and (in half of the "
        "runs) the real PeriodicCallback; after every op a read-only request "
        "must be answered synchronously with its payload and without time "
        "passing, no loop iteration may spend more than 0.25 s in sleeps, "
        "psutil's blocking cpu sample, failed spawns (2 ms each) or a read "
        "of an empty capture pipe, and every accepted "
        "waiting request must be answered within the model's bound; an "
        "enumerated family (one waiting request alone on 2-4 workers that "
        "ignore the stop signal) requires the answer within graceful_timeout "
        "+ numprocesses x warmup_delay + 0.3 s."),
  note=SIM_NOTE + " Blocking primitives modelled: time.sleep, cpu_percent(interval), failed fork+exec, os.read on a capture pipe; real-OS stalls are out of reach."),
 "C03": dict(
  engine="E1-simworld", category="exploration", design_ref="DESIGN.md §4 C03",
  technique="property-based testing over generated termination histories with worker reaction delays placed around graceful_timeout; invariant oracle over the simulated kernel's per-pid signal log with exact virtual timestamps",
  text=("Every termination episode found in a generated history (stop, "
        "restart, decr, reload, kill with overrides, max_age) is checked on "
        "the kernel signal log: stop signal first, SIGKILL never before "
        "graceful_timeout and never long after a timely exit, always within "
        "one polling step otherwise, children included with stop_children."),
  note=SIM_NOTE + " Episodes are opened by the watcher's published 'kill' event."),
 "C02": dict(
  engine="E1-simworld", category="fault_enumeration", design_ref="DESIGN.md §4 C02",
  technique="fault enumeration (a worker death injected at every kernel-call boundary of every stop/restart/rm/quit scenario of a grid) plus Hypothesis-generated histories, on the real daemon over the simulated kernel; oracle = kernel process table at the instant the reply is sent",
  text=("For each scenario of the grid the stop sequence is run once to "
        "count kernel-call boundaries and then once per (boundary, victim, "
        "kind of death); random histories add non-start requests, checks and "
        "deaths after completed stops; an on-demand family runs one on-demand "
        "watcher on a real managed socket with client connections as socket "
        "events. Survivors/zombies are read from the "
        "kernel table when the waiting reply is written; 'stopped stays "
        "stopped' is checked on the spawn log."),
  note=SIM_NOTE),
 "C04": dict(
  engine="E1-simworld", category="exploration", design_ref="DESIGN.md §4 C04",
  technique="model-based property testing: generated histories with hook outcomes, exec failures and boundary deaths; differential between the daemon's replies (list/numprocesses/stats/status) and the simulated kernel's process table at quiescent points, plus fault enumeration of the spawn path",
  text=("At every quiescent point the replies of list, numprocesses, stats "
        "and status are compared with the kernel table (every live child "
        "reported exactly once, stopped => none, no transient status, no "
        "dead pid or zombie after one check)."),
  note=SIM_NOTE),
 "C09": dict(
  engine="E1-simworld", category="exploration", design_ref="DESIGN.md §4 C09",
  technique="model-based property testing: generated histories; the frames captured on the PUB socket are parsed and the reconstructed process set / exit codes are compared with the simulated kernel's table and death log",
  text=("Spawn/reap/kill/start/stop events captured from the PUB socket "
        "fake are checked for uniqueness and ordering after every op and, at "
        "the settled end, the reconstructed live set, the exit codes of "
        "self-inflicted deaths (all statuses 0..255 and signals) and the "
        "start/stop-vs-status agreement are compared with kernel ground "
        "truth."),
  note=SIM_NOTE),
 "C01": dict(
  engine="E1-simworld", category="exploration", design_ref="DESIGN.md §4 C01",
  technique="model-based property testing: Hypothesis-generated histories (requests, deaths, fault placements, worker behaviours) run on the real daemon over a simulated kernel on virtual time, compared with a reference model of numprocesses",
  text=("Thousands of generated histories of incr/decr/set/restart/reload, "
        "worker exits, external kills, deaths at the k-th next kernel call "
        "and loop/timer steps; after each the daemon is settled and live "
        "workers (kernel table) are compared with the model's numprocesses, "
        "generation freshness and the idle-check fixpoint are checked."),
  note=SIM_NOTE),
 "C06": dict(
  engine="E1-simworld", category="exploration", design_ref="DESIGN.md §4 C06",
  technique="property-based fuzzing of the control protocol (raw bytes, JSON values, envelope corruption, per-command property pools) with a reply-counting oracle on the recording ROUTER stream; scripted-socket model for the client id filter",
  text=("Each generated message is delivered to the real "
        "Controller.handle_message; the frames written to the stream for "
        "that peer are counted and parsed (exactly one object with the "
        "request id and status ok/error, none for casts), followed by a "
        "read-only and an exclusive liveness probe; an overlap family sends "
        "requests while a slow operation is in flight. Client: delivery scripts with stale/foreign/"
        "duplicate replies around CircusClient/AsyncCircusClient.call."),
  note=SIM_NOTE + " Multipart framing is modelled by the recording stream ([routing id, payload]); the ZMQ library itself is not exercised."),
 "C20": dict(
  engine="E2-pure", category="exploration", design_ref="DESIGN.md §4 C20",
  technique="property-based testing: exhaustive small-bound enumeration + Hypothesis-generated write sequences against a files-on-disk tail/size oracle",
  text=("Every length vector up to the small bounds is enumerated "
        "(exhaustive sub-run) and thousands of random write sequences with "
        "pre-existing backups, close/reopen and time_format are generated; "
        "after every write the scratch directory is read back and compared "
        "with the byte stream written so far."),
  note=("Oracle reads files through the OS only. Size clause asserted only "
        "where bytes==characters, writes < max_bytes and no time_format.")),
}


def main():
    props = [json.loads(l) for l in open(os.path.join(ROOT, 'properties.jsonl'))]
    checks = []
    na = []
    for p in props:
        pid = p["id"]
        have = os.path.exists(os.path.join(ROOT, 'checks', pid.lower() + '.py'))
        if pid in TABLE and have:
            t = TABLE[pid]
            checks.append({
                "property_id": pid,
                "quick_cmd": "./check %s --tier quick" % pid,
                "thorough_cmd": "./check %s --tier thorough" % pid,
                "evidence_file": "evidence/%s.json" % pid,
                "replay_cmd_template": "./check %s --replay {path}" % pid,
                "engine": t["engine"],
                "level_claimed": {"category": t["category"],
                                  "text": t["text"],
                                  "design_ref": t["design_ref"]},
                "level_note": t["note"],
                "technique": t["technique"],
            })
        else:
            na.append({"property_id": pid,
                       "reason": TABLE.get(pid, {}).get(
                           "na", "check not built yet in this session "
                           "(planned: see DESIGN.md §4)")})
    man = {
        "version": 1,
        "setup_cmd": "./setup.sh",
        "hooks": {"guard": "CIRCUS_VERIF",
                  "enable": "no source hooks: every seam is a module "
                            "attribute rebound from the harness "
                            "(vfw/world.py); checks import circus from "
                            "/repo's working tree",
                  "baseline_off_cmd": BASELINE_OFF,
                  "source_commits": [],
                  "add_only": True},
        "engines": [
            {"name": "E1-simworld", "path": "vfw/world.py",
             "serves_properties": sorted(k for k, v in TABLE.items()
                                         if v["engine"] == "E1-simworld"),
             "kind_free_text": "real Arbiter/Watcher/Controller on a "
             "virtual-time loop over a simulated kernel; Hypothesis "
             "generates histories, behaviours and fault placements"},
            {"name": "E2-pure", "path": "checks/",
             "serves_properties": sorted(k for k, v in TABLE.items()
                                         if v["engine"] == "E2-pure"),
             "kind_free_text": "Hypothesis / exhaustive generators with "
             "constructive oracles over pure functions and files"},
            {"name": "E3-live", "path": "vfw/live.py",
             "serves_properties": sorted(k for k, v in TABLE.items()
                                         if v["engine"] == "E3-live"),
             "kind_free_text": "generated scenarios on a real circusd with "
             "real children, inspected through /proc"},
        ],
        "checks": checks,
        "not_applicable": na,
        "notes": "Runner: ./check <ID> --tier quick|thorough [--seed N] "
                 "(VERIF_SEED / VERIF_TIER honoured); exit 2 = harness "
                 "error, never a violation. known_findings.json lists "
                 "recorded and fixed findings.",
    }
    with open(os.path.join(ROOT, 'MANIFEST.json'), 'w') as f:
        json.dump(man, f, indent=1)
    print("checks:", [c["property_id"] for c in checks])
    print("not_applicable:", [c["property_id"] for c in na])


if __name__ == '__main__':
    main()
