#!/bin/sh
# tools/at_commit.sh <commit> <PROP> [extra check args]: run a check against
# circus as of <commit> (scratch copy under /tmp, removed afterwards)
set -e
c=$1; p=$2; shift 2
d=$(mktemp -d /tmp/circus-at-XXXXXX)
git -C /repo archive "$c" circus | tar -x -C "$d"
cd "$(dirname "$0")/.."
VERIF_REPO=$d VERIF_NO_EVIDENCE=1 ./check "$p" "$@" || true
rm -rf "$d" replays/mutant-found
