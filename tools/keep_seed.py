#!/venv/bin/python
"""tools/keep_seed.py <ID> <PROP> <demo-dir> <needs...>  (meta 'caught_by' etc. are edited afterwards)"""
import json, os, shutil, sys
sid, prop, src = sys.argv[1:4]
needs = ' '.join(sys.argv[4:])
d = os.path.join('/verif/seeded', sid)
os.makedirs(d, exist_ok=True)
for n in ('patch.diff', 'demo.py', 'notes.md'):
    if os.path.exists(os.path.join(src, n)):
        shutil.copy(os.path.join(src, n), os.path.join(d, n))
meta = {"id": sid, "breaks_property": prop, "needs_to_manifest": needs,
        "confirmed": {}, "checks_run": {}}
mp = os.path.join(d, 'meta.json')
if os.path.exists(mp):
    old = json.load(open(mp)); old.update({k: v for k, v in meta.items() if k in ('needs_to_manifest',)}); meta = old
json.dump(meta, open(mp, 'w'), indent=1)
print(d)
