#!/venv/bin/python
"""Prints, per check, every vacuity floor with the measured value of the last run (evidence/)."""
import json, re, os, sys
ROOT = os.path.dirname(os.path.dirname(os.path.abspath(__file__)))
for n in range(1, 21):
    pid = 'C%02d' % n
    src = open(os.path.join(ROOT, 'checks', pid.lower() + '.py')).read()
    m = re.search(r'def check_floors.*', src, re.S)
    if not m:
        continue
    ev = json.load(open(os.path.join(ROOT, 'evidence', pid + '.json')))
    cc = ev['coverage']['class_counters']; tot = ev['coverage']['evaluations']
    keys = re.findall(r"\('([\w>=<:\- ]+)',\s*([\d.]+)", m.group(0))
    for k, f in keys:
        f = float(f)
        have = cc.get(k, 0)
        need = f * tot if f < 1 else f
        flag = '' if have >= 2 * need else '   <-- margin < 2x'
        print("%s %-36s have %6d need %8.0f (%.2f of %d)%s" % (pid, k, have, need, f, tot, flag))
