#!/venv/bin/python
"""Sensitivity self-test (not a registered check).

usage: tools/mutants.py [PROP ...]     run the mutants listed in tools/mutants.json
Each mutant is a textual replacement applied to a scratch copy of
/repo/circus (outside /repo and /verif); the property's quick check is run
with VERIF_REPO pointing at the copy; the copy is removed afterwards.
A mutant is 'caught' when the check exits 1.
"""
import json
import os
import shutil
import subprocess
import sys
import tempfile

ROOT = os.path.dirname(os.path.dirname(os.path.abspath(__file__)))


def run_mutant(prop, m, tier='quick'):
    d = tempfile.mkdtemp(prefix='circus-mut-')
    try:
        shutil.copytree(os.path.join(os.environ.get('VERIF_MUT_BASE', '/repo'), 'circus'), os.path.join(d, 'circus'),
                        ignore=shutil.ignore_patterns('__pycache__'))
        path = os.path.join(d, m["file"])
        src = open(path).read()
        if src.count(m["old"]) != m.get("count", 1):
            return 'BAD-MUTANT(old text occurs %d times)' % src.count(m["old"])
        open(path, 'w').write(src.replace(m["old"], m["new"]))
        env = dict(os.environ, VERIF_REPO=d, VERIF_NO_EVIDENCE='1')
        p = subprocess.run([os.path.join(ROOT, 'check'), prop, '--tier', tier],
                           env=env, stdout=subprocess.PIPE,
                           stderr=subprocess.PIPE, text=True, cwd=ROOT)
        sigs = [ln.strip() for ln in p.stdout.splitlines()
                if ln.startswith('  #')]
        if p.returncode == 1:
            return 'caught ' + '; '.join(s[:100] for s in sigs[:2])
        if p.returncode == 0:
            if m.get("equivalent"):
                return 'not caught (listed as equivalent: %s)' % \
                    m["equivalent"][:90]
            return 'MISSED'
        return 'ERROR rc=%d %s' % (p.returncode, p.stderr[-300:])
    finally:
        shutil.rmtree(d, ignore_errors=True)


def main():
    allm = json.load(open(os.path.join(ROOT, 'tools', 'mutants.json')))
    props = sys.argv[1:] or sorted(allm)
    for prop in props:
        for m in allm.get(prop, []):
            print(prop, m["name"], '->', run_mutant(prop, m))
            sys.stdout.flush()
    shutil.rmtree(os.path.join(ROOT, 'replays', 'mutant-found'),
                  ignore_errors=True)


if __name__ == '__main__':
    main()
