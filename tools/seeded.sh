#!/bin/sh
# tools/seeded.sh <patch.diff> <PROP> [more PROPs]: apply a seeded change to
# /repo, run the quick checks (evidence untouched), undo it straight afterwards
patch=$1; shift
cd /verif
git -C /repo apply "$patch" || { echo "patch does not apply"; exit 2; }
for p in "$@"; do
  VERIF_NO_EVIDENCE=1 ./check "$p" --tier "${TIER:-quick}" 2>&1 | grep -v "^KNOWN-FINDING" | cut -c1-260 | head -8
  echo "  -> $p exit=$?"
done
git -C /repo checkout -- .
rm -rf replays/mutant-found
git -C /repo status --short | grep -v '^??' | head -3
