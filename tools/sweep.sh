#!/bin/sh
# tools/sweep.sh <seed> [tier]: run every registered check once, print one line each
seed=$1; tier=${2:-quick}
cd "$(dirname "$0")/.."
for p in C01 C02 C03 C04 C05 C06 C07 C08 C09 C10 C11 C12 C13 C14 C15 C16 C17 C18 C19 C20; do
  out=$(VERIF_NO_EVIDENCE=1 ./check $p --tier $tier --seed $seed 2>&1); rc=$?
  echo "$p rc=$rc $(echo "$out" | grep -E "tier=|VIOLATION|HARNESS" | cut -c1-200 | tr '\n' '|')"
done
