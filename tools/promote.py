#!/venv/bin/python
"""tools/promote.py <found replay> <finding id> <what fails...>
Copies a found replay to replays/<prop>/known-<id>.json and adds an *open*
entry to known_findings.json (only ever run by hand, never by a check)."""
import json, os, sys, shutil
ROOT = os.path.dirname(os.path.dirname(os.path.abspath(__file__)))
src, fid = sys.argv[1], sys.argv[2]
what = ' '.join(sys.argv[3:])
rec = json.load(open(src))
prop = rec["property"]
dst = os.path.join('replays', prop, 'known-%s.json' % fid)
os.makedirs(os.path.join(ROOT, 'replays', prop), exist_ok=True)
shutil.copy(src, os.path.join(ROOT, dst))
kf = json.load(open(os.path.join(ROOT, 'known_findings.json')))
for e in kf["entries"]:
    if e["id"] == fid and e["property"] == prop:
        if rec["signature"] not in e["signatures"]:
            e["signatures"].append(rec["signature"])
        if dst not in e["replays"]:
            e["replays"].append(dst)
        break
else:
    kf["entries"].append({
        "id": fid, "property": prop, "status": "open",
        "signatures": [rec["signature"]], "replays": [dst],
        "what_fails": what,
        "line": "open: property=%s %s" % (prop, what)})
json.dump(kf, open(os.path.join(ROOT, 'known_findings.json'), 'w'), indent=1)
print("promoted", dst)
