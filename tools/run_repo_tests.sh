#!/bin/sh
# Runs the pinned test-suite of /repo (guard off) and compares with BASELINE.json
cd /repo && env -u CIRCUS_VERIF /venv/bin/python -m pytest -ra -q -p no:cacheprovider --timeout=900 --continue-on-collection-errors --junitxml=/tmp/junit_verif.xml > /tmp/pytest_verif.log 2>&1
/venv/bin/python - <<'P'
import xml.etree.ElementTree as ET, json
t=ET.parse('/tmp/junit_verif.xml')
ok=set(); bad=[]
for tc in t.iter('testcase'):
    name=tc.get('classname')+'::'+tc.get('name')
    if tc.find('failure') is not None or tc.find('error') is not None: bad.append(name)
    elif tc.find('skipped') is None: ok.add(name)
b=json.load(open('/root/.vp/BASELINE.json'))
sp=set(b['stable_pass'])
print("passed", len(ok), "failed", bad)
print("stable_pass missing:", sorted(sp-ok))
P
