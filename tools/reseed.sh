#!/bin/sh
# tools/reseed.sh [Snn ...]: re-run every kept seeded change against the
# current checks.  Needs a scratch git checkout of circus in $VERIF_REPO (never
# /repo itself): e.g. `vp run --with-repo -- sh -c 'VERIF_REPO=$VP_RUN_REPO tools/reseed.sh'`
cd "$(dirname "$0")/.."
repo=${VERIF_REPO:?set VERIF_REPO to a scratch checkout}
[ "$repo" = "/repo" ] && { echo "refusing to patch /repo"; exit 2; }
n=0
for d in seeded/S*; do
  id=$(basename $d | cut -d- -f1)
  n=$((n+1))
  # RESEED_SHARD=i/k: only every k-th seed, starting with the i-th
  if [ -n "$RESEED_SHARD" ]; then
    i=${RESEED_SHARD%/*}; k=${RESEED_SHARD#*/}
    [ $((n % k)) -eq $i ] || continue
  fi
  if [ $# -gt 0 ]; then case " $* " in *" $id "*) ;; *) continue;; esac; fi
  prop=$(python3 -c "import json;print(json.load(open('$d/meta.json'))['breaks_property'])")
  pf=$d/patch.diff; [ -f $d/patch-rebased.diff ] && pf=$d/patch-rebased.diff
  git -C $repo reset -q --hard
  if ! git -C $repo apply --3way $(pwd)/$pf >/dev/null 2>&1; then
    echo "$id $prop APPLY-FAILED"; git -C $repo reset -q --hard; continue
  fi
  out=$(VERIF_NO_EVIDENCE=1 ./check $prop --tier quick 2>&1); rc=$?
  sig=$(echo "$out" | grep "^  #" | head -1 | cut -c1-110)
  if [ $rc -eq 1 ]; then echo "$id $prop caught $sig"; else echo "$id $prop NOT-CAUGHT rc=$rc"; fi
  git -C $repo reset -q --hard
done
rm -rf replays/mutant-found
