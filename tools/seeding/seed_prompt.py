import sys
pid=sys.argv[1]
prop=open('/tmp/prop-%s.txt'%pid).read()
print(f"""You are helping to evaluate a verification effort for the open-source project circus (circus-tent/circus), a Python process & socket supervisor (daemon `circusd`, controlled over a ZeroMQ JSON protocol). You have your own scratch git worktree of the repository at /tmp/seed-{pid} (python: /venv/bin/python, which has all dependencies). Work ONLY inside /tmp/seed-{pid} (and /tmp/seed-{pid}-demo for scratch files). Do NOT read or touch /repo, /verif or any other /tmp/seed-* directory.

Here is a semantic property the project is supposed to satisfy:

----
{prop}
----

Your task: write a small, realistic source change (a bug a developer could plausibly introduce: an off-by-one, a dropped guard, a reordering, a wrong variable, a missing await/yield, an early return, two individually harmless edits that interact ...) to the circus package inside /tmp/seed-{pid}/circus that BREAKS this property, while
  (1) the code still imports and runs,
  (2) the existing test-suite still passes: run  `cd /tmp/seed-{pid} && PYTHONPATH=/tmp/seed-{pid} /venv/bin/python -m pytest -q -p no:cacheprovider -p no:hypothesispytest --timeout=900 --deselect tests/test_process.py::TestProcess::test_streams`  (takes about 75 s; `tests/test_process.py::TestProcess::test_streams` fails even on the unmodified tree and a test may occasionally fail with 'Address already in use' - those do not count; re-run if in doubt),
  (3) the breakage is NOT something ordinary use would expose at once: it must need something specific to manifest - a particular interleaving or timing, a worker dying / a fault at a particular point, a multi-step sequence of operations, an unusual input, a specific configuration value, or two cooperating code sites that each look fine alone.

Also write a demonstration: a self-contained Python script /tmp/seed-{pid}-demo/demo.py (it may use pytest-free plain asserts; it may start real processes such as `sleep`, use circus' own test helpers under /tmp/seed-{pid}/tests, or drive circus classes in-process with mocks/fakes) that exits 0 on the UNMODIFIED tree and exits non-zero (assertion failure) WITH your change, when run as `cd /tmp/seed-{pid} && PYTHONPATH=/tmp/seed-{pid} /venv/bin/python /tmp/seed-{pid}-demo/demo.py`. Verify both directions yourself (use `git diff > /tmp/seed-{pid}-demo/patch.diff; git checkout -- .` and later `git apply /tmp/seed-{pid}-demo/patch.diff` inside the worktree; do NOT use `git stash`: the stash is shared between all worktrees of the repository). Keep the demo reasonably fast (< 60 s) and deterministic.

Deliverables (leave them in place, do not commit):
  - the change left applied in the worktree AND saved as /tmp/seed-{pid}-demo/patch.diff (output of `git -C /tmp/seed-{pid} diff`),
  - /tmp/seed-{pid}-demo/demo.py,
  - /tmp/seed-{pid}-demo/notes.md: which part of the property breaks, what exactly is needed to trigger it, and the commands you ran with their outcomes (test-suite result with the change, demo result with and without it).

Prefer a change of a few lines in circus/*.py or circus/commands/*.py. Do not modify tests. Be honest in notes.md if you could not make the test-suite pass or the demo discriminate. Your final message should summarise the change in 5-10 lines.""")
