import sys, json, glob, os
pid=sys.argv[1]
base=open('/tmp/seed_prompt.py').read()
prev=[]
for d in sorted(glob.glob('/verif/seeded/S*')):
    m=json.load(open(os.path.join(d,'meta.json')))
    if m.get('breaks_property')==pid:
        diff=open(os.path.join(d,'patch.diff')).read()
        files=sorted(set(l[6:] for l in diff.splitlines() if l.startswith('+++ b/')))
        prev.append("- in %s: needs %s" % (', '.join(files), m.get('needs_to_manifest')))
import subprocess
txt=subprocess.check_output([sys.executable,'/tmp/seed_prompt.py',pid]).decode()
extra=("\n\nIMPORTANT - another contributor has already delivered the following change(s) for this property; yours must differ from them in BOTH mechanism and code location (a different function, a different clause of the property, a different trigger):\n"+"\n".join(prev)+"\nAim at a clause of the property the earlier change(s) did not touch.\n") if prev else ""
txt=txt.replace("Your task: write a small, realistic source change", extra+"\nYour task: write a small, realistic source change",1)
txt=txt.replace('/tmp/seed-%s'%pid, '/tmp/seed2-%s'%pid)
print(txt)
