#!/bin/sh
# evalseed.sh <round-prefix> <PROP> [extra checks]
r=$1; p=$2; shift 2
w=/tmp/$r-$p; d=/tmp/$r-$p-demo
cd $w || exit 1
git diff > $d/my.diff
PYTHONPATH=$w timeout 300 /venv/bin/python $d/demo.py > $d/with.log 2>&1; a=$?
git checkout -q -- .
PYTHONPATH=$w timeout 300 /venv/bin/python $d/demo.py > $d/without.log 2>&1; b=$?
git apply $d/my.diff
echo "== $p demo with=$a without=$b files=$(git diff --stat | tail -1)"
cd /verif
tools/seeded.sh $d/patch.diff $p "$@" 2>&1 | grep -E "VIOLATION|tier=|error" | cut -c1-230 | head -6
