#!/venv/bin/python
"""Coverage-guided fuzzing (atheris / libFuzzer) of the control protocol.

One in-process entry function; a fresh SimWorld daemon per iteration (no
state leaks between iterations); the semantic oracle of checks/c06.py (one
well-formed reply with the right id, daemon still serves a probe) runs
*inside* the target.  Two modes:
  bytes : FuzzedDataProvider decodes the input into raw frames / JSON
          skeletons with mutated fields
  hyp   : the Hypothesis strategy of checks/c06.py driven by libFuzzer
          through test.hypothesis.fuzz_one_input
usage: fuzz_c06.py <mode> <outdir> [libFuzzer flags...]
A violation not listed in known_findings.json is written to
<outdir>/violation.json and the process aborts (libFuzzer saves the input).
"""
import json
import os
import sys

ROOT = os.path.dirname(os.path.dirname(os.path.abspath(__file__)))
sys.path.insert(0, ROOT)
sys.path.insert(1, os.path.join(ROOT, '.deps'))
sys.path.insert(0, os.environ.get('VERIF_REPO', '/repo'))

import atheris  # noqa: E402

with atheris.instrument_imports(include=['circus']):
    import circus.controller  # noqa: F401
    import circus.commands  # noqa: F401
    import circus.util  # noqa: F401
    import circus.arbiter  # noqa: F401

from checks import c06  # noqa: E402
from vfw.runner import open_signatures  # noqa: E402

MODE = sys.argv[1]
OUT = sys.argv[2]
KNOWN = set(open_signatures('C06'))
COUNT = [0]
COMMANDS = c06.COMMANDS
KEYS = sorted(c06.POOLS)


def report(case, viols):
    new = [v for v in viols if v["signature"] not in KNOWN]
    if not new:
        return
    with open(os.path.join(OUT, 'violation.json'), 'w') as f:
        json.dump({"signature": new[0]["signature"],
                   "message": new[0]["message"], "case": case}, f)
    raise RuntimeError("C06 violation: %s" % new[0]["signature"])


def one_bytes(data):
    fdp = atheris.FuzzedDataProvider(data)
    msgs = []
    for _ in range(fdp.ConsumeIntInRange(1, 3)):
        kind = fdp.ConsumeIntInRange(0, 3)
        if kind == 0:
            raw = fdp.ConsumeBytes(fdp.ConsumeIntInRange(0, 40))
            msgs.append({"kind": "raw", "bytes": raw.decode('latin-1')})
        else:
            cmd = COMMANDS[fdp.ConsumeIntInRange(0, len(COMMANDS) - 1)]
            if kind == 3:
                cmd = fdp.ConsumeUnicodeNoSurrogates(8)
            props = {}
            for _k in range(fdp.ConsumeIntInRange(0, 4)):
                key = KEYS[fdp.ConsumeIntInRange(0, len(KEYS) - 1)]
                pool = c06.POOLS[key]
                sel = fdp.ConsumeIntInRange(0, len(pool) + 2)
                if sel < len(pool):
                    props[key] = pool[sel]
                elif sel == len(pool):
                    props[key] = fdp.ConsumeUnicodeNoSurrogates(6)
                elif sel == len(pool) + 1:
                    props[key] = fdp.ConsumeIntInRange(-3, 70000)
                else:
                    props[key] = [fdp.ConsumeBool()]
            value = {"command": cmd, "properties": props}
            if fdp.ConsumeBool():
                value["id"] = fdp.ConsumeUnicodeNoSurrogates(4)
            if fdp.ConsumeIntInRange(0, 7) == 0:
                value["msg_type"] = "cast"
            if fdp.ConsumeIntInRange(0, 9) == 0:
                value["properties"] = fdp.ConsumeUnicodeNoSurrogates(3)
            msgs.append({"kind": "command", "value": value})
    case = {"messages": msgs, "tape": []}
    COUNT[0] += 1
    viols, _nt, _cl = c06.execute_daemon(case)
    report(case, viols)


def main():
    os.makedirs(OUT, exist_ok=True)
    argv = [sys.argv[0]] + sys.argv[3:]
    if MODE == 'hyp':
        import hypothesis
        from hypothesis import given, settings, HealthCheck

        @settings(database=None, deadline=None,
                  suppress_health_check=list(HealthCheck))
        @given(c06._daemon_strategy())
        def t(case):
            COUNT[0] += 1
            viols, _nt, _cl = c06.execute_daemon(case)
            report(case, viols)
        atheris.Setup(argv, t.hypothesis.fuzz_one_input)
    else:
        atheris.Setup(argv, one_bytes)
    atheris.Fuzz()


if __name__ == '__main__':
    main()
