"""Virtual-time asyncio loop driven step by step by the harness.

The loop never sleeps: ``select`` is always polled with timeout 0 and
``time()`` is a counter owned by the harness.  Real file descriptors keep
working (C17 uses real pipes).
"""
import asyncio
import heapq
from asyncio import events


class _ZeroSelector(object):
    """Wraps the real selector; every select() is a non-blocking poll."""

    def __init__(self, inner, owner):
        self._inner = inner
        self._owner = owner

    def select(self, timeout=None):
        ev = self._inner.select(0)
        self._owner._last_select_events = len(ev)
        return ev

    def __getattr__(self, name):
        return getattr(self._inner, name)


class VirtualLoop(asyncio.SelectorEventLoop):

    def __init__(self, start=1000.0):
        super().__init__()
        self._vt = float(start)
        self._last_select_events = 0
        self._selector = _ZeroSelector(self._selector, self)
        self.iterations = 0
        self.on_time_read = None     # hook: kernel applies due events

    # -- clock -----------------------------------------------------------
    def time(self):
        return self._vt

    def set_time(self, t):
        if t > self._vt:
            self._vt = t

    # -- stepping --------------------------------------------------------
    def _next_timer(self):
        while self._scheduled and self._scheduled[0]._cancelled:
            h = heapq.heappop(self._scheduled)
            h._scheduled = False
            self._timer_cancelled_count = max(
                0, self._timer_cancelled_count - 1)
        if self._scheduled:
            return self._scheduled[0]._when
        return None

    def has_ready(self):
        return bool(self._ready)

    def timers_due(self):
        w = self._next_timer()
        return w is not None and w <= self._vt + self._clock_resolution

    def pending_timers(self):
        self._next_timer()
        return [h for h in self._scheduled if not h._cancelled]

    def step(self):
        """Exactly one loop iteration at the current virtual instant."""
        self.iterations += 1
        old = events._get_running_loop()
        events._set_running_loop(self)
        try:
            self._run_once()
        finally:
            events._set_running_loop(old)

    def is_idle(self):
        return (not self._ready and not self.timers_due()
                and self._last_select_events == 0)

    def run_until_idle(self, max_iter=20000):
        """Iterate until nothing is runnable at this instant.

        Returns False if the iteration guard tripped (livelock)."""
        n = 0
        # always do at least one poll so that fd readiness is noticed
        self.step()
        while not self.is_idle():
            self.step()
            n += 1
            if n > max_iter:
                return False
        return True

    def call_in_loop(self, fn, *args):
        """Run fn as if it were a loop callback (running-loop set)."""
        old = events._get_running_loop()
        events._set_running_loop(self)
        try:
            return fn(*args)
        finally:
            events._set_running_loop(old)
