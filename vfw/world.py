"""SimWorld: the real circus Arbiter/Watcher/Controller, in-process, on a
virtual clock over the simulated kernel, with recording wire fakes.

No circus source is modified: every seam is a module attribute rebound for
the lifetime of one world and restored in close().
"""
import asyncio
import json
import logging
import os as _real_os
import signal as _signal
import socket as _real_socket
import time as _real_time
import types

import tornado.ioloop

from vfw.simloop import VirtualLoop
from vfw.kernel import SimKernel, make_popen, DAEMON_PID

SNDMORE = 2  # zmq.SNDMORE


class SimBlocked(BaseException):
    """Unwinds a callback that keeps sleeping (the flag on the world is the
    signal; this exception may be swallowed by circus' bare except)."""


class _Proxy(types.ModuleType):
    def __init__(self, real, overrides):
        types.ModuleType.__init__(self, real.__name__)
        self.__dict__['_real'] = real
        self.__dict__.update(overrides)

    def __getattr__(self, name):
        return getattr(self.__dict__['_real'], name)


class RecordingSocket(object):
    def __init__(self, world, kind):
        self.world = world
        self.kind = kind
        self.closed = False
        self.linger = None
        self.bound = []
        self.sent = []

    def bind(self, endpoint):
        self.bound.append(endpoint)

    def connect(self, endpoint):
        pass

    def setsockopt(self, *a):
        pass

    def send_multipart(self, frames, *a, **kw):
        if self.closed:
            raise RuntimeError("send on closed socket")
        self.world._event(frames)

    def close(self, *a, **kw):
        self.closed = True


class RecordingContext(object):
    def __init__(self, world):
        self.world = world
        self.sockets = []

    def socket(self, kind):
        s = RecordingSocket(self.world, kind)
        self.sockets.append(s)
        return s


class RecordingStream(object):
    def __init__(self, world):
        self.world = world
        self.closed = False
        self._parts = []
        self.flushes = 0

    def on_recv(self, cb):
        self.cb = cb

    def send(self, frame, flags=0, **kw):
        if self.closed:
            raise IOError("stream closed")
        # a ROUTER message is [routing id, payload]: the frames queued with
        # SNDMORE and the closing one form one message
        if flags & SNDMORE:
            self._parts.append(frame)
            return
        parts, self._parts = self._parts + [frame], []
        if len(parts) != 2:
            self.world.framing_errors.append(
                {"t": self.world.loop.time(),
                 "frames": [bytes(p)[:80] if isinstance(p, (bytes, bytearray))
                            else repr(p)[:80] for p in parts]})
        self.world._reply(parts[0] if len(parts) > 1 else None, parts[-1])

    def flush(self, *a, **kw):
        self.flushes += 1

    def close(self, *a, **kw):
        self.closed = True


class Req(object):
    def __init__(self, idx, cid, mid, raw, t, command=None, props=None):
        self.idx = idx
        self.cid = cid
        self.mid = mid
        self.raw = raw
        self.t = t
        self.command = command
        self.props = props
        self.sync_replies = 0
        self.escaped = None       # exception that escaped handle_message
        self.replies = []         # (t, payload bytes)

    def reply(self):
        if not self.replies:
            return None
        try:
            return json.loads(self.replies[0][1])
        except Exception:
            return None

    @property
    def answered(self):
        return bool(self.replies)


class SimWorld(object):

    BLOCK_BOUND = 0.25      # virtual seconds slept inside one loop iteration
    FAILED_SPAWN_COST = 0.002

    def __init__(self, watchers=(), arbiter_opts=None, tape=(), start=1000.0,
                 config_file=None, default_beh=None, mode='daemon',
                 periodic=None, spawn_cost=1e-6):
        import circus.process
        import circus.watcher
        import circus.arbiter
        import circus.controller
        import circus.commands.base
        import circus.util
        import circus.sighandler
        self._patched = []
        self.loop = VirtualLoop(start)
        self.kernel = SimKernel(self.loop.time)
        self.kernel.behaviour_tape = list(tape)
        if default_beh is not None:
            self.kernel.default_beh = dict(default_beh)
        def _spawn_cost():
            self.loop._vt += self.spawn_cost
        self.kernel.spawn_cost = _spawn_cost
        self.blocked = False
        self.blocked_where = None
        self.cb_slept = 0.0
        self.max_cb_slept = 0.0
        self.livelock = False
        self.replies = []          # (t, cid, payload)
        self.framing_errors = []   # ROUTER messages not of the form [id, payload]
        self.events = []           # (t, topic, body dict)
        self.raw_events = []
        self.event_nsig = []
        self.requests = []
        self.loop_errors = []
        self.dead = False
        self.check_future = None
        self.checks_run = 0
        self.checks_skipped = 0
        self.check_errors = []
        self.in_probe = False
        self.on_reply = []
        self.mode = mode
        self.spawn_cost = spawn_cost   # virtual seconds a fork+exec takes
        self.periodic = periodic       # check_delay of the real callback
        self.exited = False
        self.exit_restarting = None
        self.exit_error = None

        asyncio.set_event_loop(self.loop)
        self.loop.set_exception_handler(self._loop_exc)
        self.ioloop = tornado.ioloop.IOLoop.current()
        self.ioloop.time = self.loop.time

        world = self
        k = self.kernel

        def v_time():
            return world.loop.time()

        def v_sleep(d):
            world.cb_slept += d
            if world.cb_slept > world.max_cb_slept:
                world.max_cb_slept = world.cb_slept
            world.loop._vt += max(0.0, d)
            if world.cb_slept > world.BLOCK_BOUND:
                if not world.blocked:
                    import traceback
                    world.blocked = True
                    world.blocked_where = _innermost_circus_frame(
                        traceback.extract_stack())
                raise SimBlocked()

        k.sleep_fn = v_sleep

        def v_fail_cost():
            # a spawn that fails (fork, exec error reported through the
            # pipe, wait) keeps the loop for about 2 ms of real time; it
            # counts towards the blocked-time meter without moving the
            # virtual clock, so that an unbounded retry loop is seen (and
            # ended) instead of hanging the harness
            world.cb_slept += world.FAILED_SPAWN_COST
            if world.cb_slept > world.max_cb_slept:
                world.max_cb_slept = world.cb_slept
            if world.cb_slept > world.BLOCK_BOUND:
                if not world.blocked:
                    import traceback
                    world.blocked = True
                    world.blocked_where = _innermost_circus_frame(
                        traceback.extract_stack())
                raise SimBlocked()
        k.fail_cost = v_fail_cost

        def v_waitpid(pid, options):
            return k.waitpid(pid, options)

        def v_kill(pid, sig):
            return k.kill(pid, sig)

        time_proxy = _Proxy(_real_time, {'time': v_time, 'sleep': v_sleep})
        os_proxy = _Proxy(_real_os, {'waitpid': v_waitpid, 'kill': v_kill,
                                     'getpid': lambda: DAEMON_PID})
        sock_proxy = _Proxy(_real_socket, {'getfqdn': lambda *a: 'sim.host',
                                           'gethostname': lambda: 'sim'})

        class SimSysHandler(circus.sighandler.SysHandler):
            def _register(self):
                pass

            def stop(self):
                pass

        class SimController(circus.controller.Controller):
            def _init_stream(self):
                self.stream = RecordingStream(world)
                self.stream.on_recv(self.handle_message)

            def _init_syshandler(self):
                self.sys_hdl = SimSysHandler(self)

        real_kill = _real_os.kill

        def global_kill(pid, sig):
            # anything that reaches the real os.kill (e.g. through
            # psutil.Process(pid).send_signal) is routed to the simulated
            # kernel; unknown pids are recorded, never executed
            return k.kill(pid, sig)
        self._patch(_real_os, 'kill', global_kill)

        _ACTIVE_KERNEL[0] = k
        self._patch(circus.process, 'Popen', make_popen(k))
        for mod in (circus.watcher, circus.arbiter, circus.process,
                    circus.commands.base, circus.util, circus.controller):
            if hasattr(mod, 'time'):
                self._patch(mod, 'time', time_proxy)
        for mod in (circus.watcher, circus.arbiter):
            self._patch(mod, 'os', os_proxy)
        self._patch(circus.arbiter, 'socket', sock_proxy)

        def v_read(fd, n):
            # the capture pipes are blocking: a read with nothing to read
            # and the writer still there keeps the daemon's only thread
            # until the worker writes again (in the simulation: for ever)
            import select as _select
            try:
                blocking = _real_os.get_blocking(fd)
            except OSError:
                blocking = False
            if blocking and not _select.select([fd], [], [], 0)[0]:
                if not world.blocked:
                    import traceback
                    world.blocked = True
                    world.blocked_where = 'blocking-read:' + \
                        _innermost_circus_frame(traceback.extract_stack())
                raise SimBlocked()
            return _real_os.read(fd, n)
        import circus.stream.redirector as _redir
        self._patch(_redir, 'os', _Proxy(_real_os, {'read': v_read}))
        self._patch(circus.controller, 'os', _Proxy(
            _real_os, {'chown': lambda *a, **kw: None}))
        self._patch(circus.watcher, 'randint', lambda a, b: a)
        self._patch(circus.arbiter, 'Controller', SimController)

        self.context = RecordingContext(self)
        opts = dict(check_delay=-1 if not periodic else periodic)
        opts.update(arbiter_opts or {})
        self.config_file = config_file
        if config_file is not None:
            self._patch(circus.arbiter.zmq.Context, 'instance',
                        staticmethod(lambda *a, **kw: self.context))
            self.arbiter = circus.arbiter.Arbiter.load_from_config(
                config_file, loop=self.ioloop)
            cd = -1 if not periodic else periodic
            self.arbiter.check_delay = cd
            self.arbiter.ctrl.check_delay = cd * 1000
        else:
            ws = [w if isinstance(w, circus.watcher.Watcher)
                  else circus.watcher.Watcher(**w) for w in watchers]
            endpoint = opts.pop('endpoint', 'tcp://127.0.0.1:1')
            self.arbiter = circus.arbiter.Arbiter(
                ws, endpoint, 'tcp://127.0.0.1:2',
                context=self.context, loop=self.ioloop, **opts)
        self.ctrl = self.arbiter.ctrl
        self.start_future = None
        k.excl_probe = lambda: getattr(world.arbiter,
                                       '_exclusive_running_command', None)

    # -- plumbing ----------------------------------------------------------
    def _patch(self, obj, name, value):
        self._patched.append((obj, name, obj.__dict__.get(name, _MISSING)
                              if isinstance(obj, type)
                              else getattr(obj, name, _MISSING)))
        setattr(obj, name, value)

    def _loop_exc(self, loop, context):
        exc = context.get('exception')
        self.loop_errors.append({
            "t": self.loop.time(),
            "message": context.get('message'),
            "exc": repr(exc) if exc is not None else None,
            "type": type(exc).__name__ if exc is not None else None})

    def _reply(self, cid, payload):
        t = self.loop.time()
        self.replies.append((t, cid, payload))
        for r in self.requests:
            if r.cid == cid:
                r.replies.append((t, payload))
                for hook in self.on_reply:
                    hook(r)
                break

    def _event(self, frames):
        t = self.loop.time()
        self.raw_events.append((t, frames))
        try:
            topic = frames[0].decode('utf8')
            body = json.loads(frames[1])
        except Exception:
            topic, body = repr(frames[0]), None
        self.events.append((t, topic, body))
        self.event_nsig.append(len(self.kernel.signal_log))

    # -- running -----------------------------------------------------------
    def _step(self):
        self.cb_slept = 0.0
        self.loop.step()
        self._after_step()

    def run_idle(self):
        if self.dead:
            return
        self.kernel.apply_due()
        self.cb_slept = 0.0
        n = 0
        self._step()
        while not self.loop.is_idle():
            self._step()
            n += 1
            if n > 20000 or self.blocked:
                if not self.blocked:
                    self.livelock = True
                self.dead = True
                return

    def step(self, n=1):
        if self.dead:
            return
        self.kernel.apply_due()
        for _ in range(n):
            self._step()
            if self.blocked:
                self.dead = True
                return

    def in_loop(self, fn, *args):
        """Call fn as a loop callback would be called."""
        self.cb_slept = 0.0
        self.kernel.apply_due()
        try:
            return self.loop.call_in_loop(fn, *args)
        except SimBlocked:
            self.dead = True
            return None
        finally:
            if self.blocked:
                self.dead = True

    def next_timer(self):
        return self.loop._next_timer()

    def periodic_handle(self):
        c = getattr(self.ctrl, 'caller', None)
        return getattr(c, '_timeout', None) if c is not None else None

    def next_other_timer(self):
        """Earliest timer that is not the periodic check's own timer."""
        ph = self.periodic_handle()
        best = None
        for hd in self.loop.pending_timers():
            if hd is ph:
                continue
            if best is None or hd._when < best:
                best = hd._when
        return best

    def advance_until(self, cond, deadline):
        """Let virtual time pass (timers firing) until cond() holds or the
        clock reaches deadline.  Returns cond()."""
        while not self.dead:
            self.run_idle()
            if cond():
                return True
            nt = self.loop._next_timer()
            kt = self.kernel.next_event_time()
            cands = [x for x in (nt, kt) if x is not None]
            if not cands or min(cands) > deadline:
                break
            self.loop.set_time(min(cands))
            self.kernel.apply_due()
        if not self.dead and self.loop.time() < deadline:
            self.loop.set_time(deadline)
            self.run_idle()
        return cond()

    def advance(self, dt):
        if self.dead:
            return
        target = self.loop.time() + dt
        self.run_idle()
        while not self.dead:
            nt = self.loop._next_timer()
            if nt is None or nt > target:
                break
            self.loop.set_time(nt)
            self.run_idle()
        if not self.dead:
            self.loop.set_time(target)
            self.run_idle()

    def advance_to_next_timer(self):
        if self.dead:
            return False
        self.run_idle()
        nt = self.loop._next_timer()
        if nt is None:
            return False
        self.loop.set_time(nt)
        self.run_idle()
        return True

    def drain(self, budget=600.0):
        """Run until no ready callback and no timer remain, or until the
        virtual-time budget is used up.  Returns True when quiescent."""
        start = self.loop.time()
        if self.periodic:
            return self.advance_until(self.quiescent, start + budget)
        while not self.dead:
            self.run_idle()
            nt = self.loop._next_timer()
            if nt is None:
                # no loop work left; let time pass for the processes: a
                # scheduled exit (signal reaction, SIGKILL latency, own
                # lifetime) still happens even though nobody is waiting
                kt = self.kernel.next_event_time()
                if kt is None or kt - start > budget:
                    return True
                self.loop.set_time(kt)
                self.kernel.apply_due()
                continue
            if nt - start > budget:
                return False
            self.loop.set_time(nt)
        return self.exited

    def quiescent(self):
        if self.exited:
            return True
        if self.dead or not self.loop.is_idle():
            return False
        if self.periodic:
            # the periodic callback re-arms its timer only after its run
            # has completed: quiescent iff that timer is the only one left
            pend = self.loop.pending_timers()
            return len(pend) == 1 and pend[0] is self.periodic_handle()
        return self.loop._next_timer() is None

    # -- daemon life cycle ---------------------------------------------------
    def start(self, drain=True):
        """Start the daemon.

        mode 'daemon' (default) reproduces what circusd does: the Arbiter is
        built *without* a provided loop, so start() registers
        start_watchers() on the loop and then blocks in start_io_loop()
        until somebody calls loop.stop(); its finally clause then runs
        stop_controller_and_close_sockets().  The harness owns the loop, so
        the blocking call is replaced by a no-op and the finally clause is
        postponed until the iteration in which loop.stop() was requested has
        completed (see _after_step).  mode 'embedded' is the provided-loop
        API used by the test-suite."""
        arb = self.arbiter
        if self.mode == 'daemon':
            arb._provided_loop = False
            arb.start_io_loop = lambda: None
            arb.stop_controller_and_close_sockets = lambda: None

            def go():
                return arb.start()
            try:
                self.start_future = self.in_loop(go)
            finally:
                del arb.start_io_loop
                del arb.stop_controller_and_close_sockets
        else:
            self.start_future = self.in_loop(lambda: arb.start())
        if self.start_future is not None and \
                hasattr(self.start_future, 'add_done_callback'):
            self.start_future.add_done_callback(self._swallow)
        if drain:
            self.drain()

    def _after_step(self):
        if self.mode == 'daemon' and self.loop._stopping and \
                not self.exited:
            # loop.start() would return now; Arbiter.start()'s finally:
            self.loop._stopping = False
            self.exited = True
            self.exit_restarting = bool(self.arbiter._restarting)
            try:
                self.arbiter.stop_controller_and_close_sockets()
            except Exception as e:
                self.exit_error = repr(e)
            self.dead = True

    @staticmethod
    def _swallow(f):
        try:
            f.exception()
        except BaseException:
            pass

    def close(self):
        try:
            if _ACTIVE_KERNEL[0] is self.kernel:
                _ACTIVE_KERNEL[0] = None
            for obj, name, old in reversed(self._patched):
                if old is _MISSING:
                    try:
                        delattr(obj, name)
                    except AttributeError:
                        pass
                else:
                    setattr(obj, name, old)
            self._patched = []
            for p in self.kernel.procs.values():
                for fd in list(p.wfd.values()):
                    try:
                        _real_os.close(fd)
                    except OSError:
                        pass
                p.wfd = {}
            # close read ends still held by circus Process objects
            for f in self.kernel.open_files:
                try:
                    f.close()
                except Exception:
                    pass
            try:
                for s in list(getattr(self.arbiter, 'sockets', {}).values()):
                    try:
                        s.close()
                    except Exception:
                        pass
            except Exception:
                pass
        finally:
            try:
                self.ioloop.close(all_fds=False)
            except Exception:
                try:
                    self.loop.close()
                except Exception:
                    pass
            asyncio.set_event_loop(None)

    # -- requests ------------------------------------------------------------
    def send_raw(self, payload, cid=None, frames=None, command=None,
                 props=None, mid=None):
        """Deliver one message exactly as ZMQStream would: a call of
        ctrl.handle_message([cid, payload]) from inside the loop."""
        idx = len(self.requests)
        if cid is None:
            cid = ('c%d' % idx).encode()
        req = Req(idx, cid, mid, payload, self.loop.time(), command, props)
        self.requests.append(req)
        if self.dead:
            return req
        before = len(self.replies)
        self.kernel.ctx = idx
        msg = frames if frames is not None else [cid, payload]

        def deliver():
            try:
                self.ctrl.handle_message(msg)
            except SimBlocked:
                raise
            except Exception as e:      # escaped exception: recorded
                req.escaped = e
        try:
            self.in_loop(deliver)
        finally:
            self.kernel.ctx = None
        req.sync_replies = len([1 for (_, c, _p) in self.replies[before:]
                                if c == cid])
        return req

    def request(self, command, props=None, mid=None, cast=False, extra=None):
        idx = len(self.requests)
        if mid is None:
            mid = 'm%d' % idx
        msg = {"id": mid, "command": command,
               "properties": props if props is not None else {}}
        if cast:
            msg["msg_type"] = "cast"
        if extra:
            msg.update(extra)
        return self.send_raw(json.dumps(msg).encode(), command=command,
                             props=props, mid=mid)

    def probe(self, command, props=None):
        """Read-only request; kernel calls made while serving it do not
        count as fault boundaries.  Returns the parsed reply or None."""
        k = self.kernel
        saved = (k.ncalls, k.faults, k.log_calls)
        k.faults = []
        k.log_calls = False
        self.in_probe = True
        try:
            r = self.request(command, props)
        finally:
            self.in_probe = False
            k.ncalls, k.faults, k.log_calls = saved
        return r.reply()

    def deliver_signal(self, signum):
        """What the OS does when the daemon receives a signal: the Python
        level handler runs between two bytecodes of the main thread; circus'
        handler only enqueues a loop callback."""
        self.ctrl.sys_hdl.signal(signum)

    def check(self):
        """One firing of the periodic callback (tornado PeriodicCallback._run
        semantics: skipped while the previous run has not finished,
        exceptions logged and dropped)."""
        if self.dead:
            return False
        if self.check_future is not None and not self.check_future.done():
            self.checks_skipped += 1
            return False
        self.check_future = None

        def go():
            try:
                return self.arbiter.manage_watchers()
            except SimBlocked:
                raise
            except Exception as e:
                self.check_errors.append(repr(e))
                return None
        f = self.in_loop(go)
        self.checks_run += 1
        if f is not None and hasattr(f, 'add_done_callback'):
            self.check_future = f
            f.add_done_callback(self._check_done)
        return True

    def _check_done(self, f):
        try:
            e = f.exception()
            if e is not None:
                self.check_errors.append(repr(e))
        except BaseException as e:
            self.check_errors.append(repr(e))

    def full_check(self, budget=600.0):
        """A periodic check run to completion."""
        self.check()
        return self.drain(budget)

    # -- observation ---------------------------------------------------------
    def live(self, owner=None):
        self.kernel.apply_due()
        return self.kernel.live_workers(owner)

    def eff_live(self, owner=None):
        self.kernel.apply_due()
        return self.kernel.effective_live(owner)

    def parsed_events(self, name=None):
        out = []
        for (t, topic, body) in self.events:
            parts = topic.split('.')
            if len(parts) >= 3 and parts[0] == 'watcher':
                wname = '.'.join(parts[1:-1])
                ev = parts[-1]
                if name is None or wname == name:
                    out.append((t, wname, ev, body))
        return out


_MISSING = object()
_ACTIVE_KERNEL = [None]


def _install_psutil_routing():
    """psutil.Process(<simulated pid>) is a view on the simulated table of
    the active world (the real constructor would look the pid up in /proc).
    Installed once per process: removing a __new__ from a class again leaves
    CPython's object.__new__ argument check in a confused state."""
    import psutil as _psutil
    from vfw.kernel import FakeProcess
    if '__new__' in _psutil.Process.__dict__:
        return

    def routed_new(cls, *a, **kw):
        k = _ACTIVE_KERNEL[0]
        pid = a[0] if a else kw.get('pid')
        if k is not None and cls is _psutil.Process and \
                isinstance(pid, int) and not isinstance(pid, bool) and \
                pid >= DAEMON_PID:
            if k.state(pid) == 'gone':
                raise _psutil.NoSuchProcess(pid)
            return FakeProcess(k, pid)
        return object.__new__(cls)
    _psutil.Process.__new__ = staticmethod(routed_new)


_install_psutil_routing()


def _innermost_circus_frame(stack):
    """Innermost circus frames of the blocking call, e.g.
    'reap_process<reap_processes<_start' (names the trigger path)."""
    names = []
    for fr in reversed(stack):
        if '/circus/' in fr.filename and fr.name not in (
                '_log', 'wrapper', '<lambda>'):
            if not names or names[-1] != fr.name:
                names.append(fr.name)
        if len(names) >= 4:
            break
    return '<'.join(names) if names else None


def quiet_logging():
    logging.getLogger('circus').setLevel(logging.CRITICAL + 10)
    logging.getLogger('circus').propagate = False
    logging.getLogger('tornado').setLevel(logging.CRITICAL + 10)
    logging.getLogger('tornado.application').setLevel(logging.CRITICAL + 10)
    logging.getLogger('asyncio').setLevel(logging.CRITICAL + 10)
    import warnings
    warnings.simplefilter('ignore')
