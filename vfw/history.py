"""Histories: JSON-able cases interpreted against a SimWorld.

case = {
  "watchers": [ {name, cmd?, numprocesses, ...Watcher options...,
                 "hooks": {hook_name: [outcome, ignore_flag]}} ],
  "arbiter":  {warmup_delay},
  "tape":     [behaviour dicts, consumed in spawn order],
  "default_beh": behaviour,
  "ops":      [[kind, ...args]]
}
ops:
  ["req", command, props]        deliver one request (loop not run)
  ["raw", text]                  deliver raw bytes (latin-1 encoded text)
  ["exit", i, [kind, n]]         i-th live worker dies now (exit code/signal)
  ["check"]                      one firing of the periodic callback
  ["idle"]                       run the loop until idle at this instant
  ["step", n]                    n loop iterations
  ["adv", dt]                    advance virtual time by dt (timers fire)
  ["next"]                       jump to the next timer
  ["drain"]                      run to quiescence
  ["fault", k, victim, how]      death at the k-th next kernel call
  ["sig", signum]                deliver a signal to the daemon
  ["cfg", edit]                  (config mode) rewrite the ini file:
                                 {"add": wc} | {"remove": name} |
                                 {"set": [name, key, value]} |
                                 {"circus": {key: value}}
  ["conn", i]                    a client connects to managed socket i (the
                                 connection stays pending until a worker of a
                                 use_sockets watcher is spawned: the harness
                                 accepts on the workers' behalf at that point)
"sockets": ["unix" | "inet", ...] creates real managed CircusSockets.
"config": true starts the daemon from an ini file rendered from "watchers"
and "arbiter" (the reloadconfig command then re-reads that file).
Every random choice is in the case; a run is a pure function of it.
"""
import json
import os
import shutil
import tempfile

from vfw.world import SimWorld, quiet_logging

quiet_logging()

HOOK_NAMES = ('before_start', 'after_start', 'before_spawn', 'after_spawn',
              'before_stop', 'after_stop', 'before_signal', 'after_signal',
              'before_reap', 'after_reap')


class HookRaised(Exception):
    pass


def make_hook(world_ref, wname, hname, outcome, log):
    def hook(*args, **kwargs):
        log.append({"t": world_ref[0].loop.time(), "watcher": wname,
                    "hook": hname, "outcome": outcome,
                    "kw": {k: v for k, v in kwargs.items()
                           if k in ('pid', 'signum')}})
        if outcome == 'raise':
            raise HookRaised("%s of %s raises" % (hname, wname))
        if outcome == 'raise-bare':
            raise HookRaised()       # no message (a failing assert, ...)
        if outcome == 'second-false':
            n = len([e for e in log if e["watcher"] == wname and
                     e["hook"] == hname])
            return n <= 1
        if outcome == 'third-false':
            n = len([e for e in log if e["watcher"] == wname and
                     e["hook"] == hname])
            return n <= 2
        if outcome == 'none':
            return None       # a hook that forgot its return statement
        if outcome == 'zero':
            return 0
        return outcome == 'true'
    hook.__name__ = 'hook_%s' % hname
    return hook


def render_config(watchers, circus, sockets=(), tmp=None):
    lines = ["[circus]", "check_delay = -1", "endpoint = tcp://127.0.0.1:1",
             "pubsub_endpoint = tcp://127.0.0.1:2"]
    for key in sorted(circus or {}):
        lines.append("%s = %s" % (key, circus[key]))
    lines.append("")
    for sk in sockets or ():
        lines.append("[socket:%s]" % sk["name"])
        if sk.get("kind") == 'unix':
            lines.append("path = %s" % os.path.join(tmp or '/tmp',
                                                    sk["name"] + '.sock'))
        else:
            lines += ["host = 127.0.0.1", "port = 0"]
        if sk.get("proto"):
            lines.append("proto = %s" % sk["proto"])
        if sk.get("blocking"):
            lines.append("blocking = True")
        lines.append("")
    for wc in watchers:
        lines.append("[watcher:%s]" % wc["name"])
        lines.append("cmd = %s" % wc.get("cmd",
                                         "worker --wid $(circus.wid)"))
        for key in sorted(wc):
            if key in ('name', 'cmd', 'hooks'):
                continue
            lines.append("%s = %s" % (key, wc[key]))
        lines.append("")
    return "\n".join(lines)


class History(object):

    def __init__(self, case):
        self.case = case
        self.hook_log = []
        self._wref = [None]
        self.tmp = None
        self.socks = []
        self.clients = []
        self.conn_log = []        # (t, socket index)
        self.pending_conns = 0
        if case.get("config"):
            self._init_config(case)
            return
        watchers = []
        for wc in case["watchers"]:
            wc = dict(wc)
            wc.setdefault("cmd", "worker --wid $(circus.wid)")
            hooks = wc.pop("hooks", None)
            if hooks:
                wc["hooks"] = dict(
                    (hn, (make_hook(self._wref, wc["name"], hn, spec[0],
                                    self.hook_log), bool(spec[1])))
                    for hn, spec in hooks.items())
            watchers.append(wc)
        aopts = dict(case.get("arbiter") or {})
        if case.get("sockets"):
            from circus.sockets import CircusSocket
            self.tmp = tempfile.mkdtemp(prefix='vfw-sock-')
            for i, kind in enumerate(case["sockets"]):
                if kind == 'unix':
                    self.socks.append(CircusSocket(
                        name='s%d' % i,
                        path=os.path.join(self.tmp, 's%d.sock' % i)))
                else:
                    self.socks.append(CircusSocket(
                        name='s%d' % i, host='127.0.0.1', port=0))
            aopts["sockets"] = list(self.socks)
        self.world = SimWorld(watchers=watchers,
                              arbiter_opts=aopts,
                              tape=case.get("tape") or [],
                              default_beh=case.get("default_beh"),
                              periodic=case.get("periodic"),
                              spawn_cost=case.get("spawn_cost", 1e-6),
                              mode=case.get("mode", "daemon"))
        self._wref[0] = self.world
        self.reqs = {}            # op index -> Req
        self.op_times = []
        self.started = False
        if self.socks:
            sockets_users = set(wc["name"] for wc in watchers
                                if wc.get("use_sockets"))

            def observer(rec):
                if rec.get("owner") in sockets_users:
                    self.accept_all()
            self.world.kernel.spawn_observer = observer

    def connect(self, i):
        import socket as _socket
        s = self.socks[i % len(self.socks)]
        if s.fileno() == -1:
            return
        if s.is_unix:
            c = _socket.socket(_socket.AF_UNIX, _socket.SOCK_STREAM)
            addr = s.path
        else:
            c = _socket.socket(_socket.AF_INET, _socket.SOCK_STREAM)
            addr = s.getsockname()
        c.setblocking(False)
        try:
            c.connect(addr)
        except (BlockingIOError, OSError):
            pass
        self.clients.append(c)
        self.pending_conns += 1
        self.conn_log.append((self.world.loop.time(), i))

    def accept_all(self):
        for s in self.socks:
            if s.fileno() == -1:
                continue
            while True:
                try:
                    conn, _ = s.accept()
                except (BlockingIOError, OSError):
                    break
                conn.close()
        self.pending_conns = 0

    def _init_config(self, case):
        self.tmp = tempfile.mkdtemp(prefix='vfw-cfg-')
        self.cfg_path = os.path.join(self.tmp, 'circus.ini')
        self.cfg_watchers = [dict((k, v) for k, v in wc.items()
                                  if k != 'hooks')
                             for wc in case["watchers"]]
        self.cfg_circus = dict(case.get("arbiter") or {})
        self.cfg_sockets = list(case.get("socket_sections") or [])
        self._write_config()
        try:
            self.world = SimWorld(config_file=self.cfg_path,
                                  tape=case.get("tape") or [],
                                  default_beh=case.get("default_beh"),
                                  periodic=case.get("periodic"),
                                  spawn_cost=case.get("spawn_cost", 1e-6),
                                  mode=case.get("mode", "daemon"))
        except BaseException:
            shutil.rmtree(self.tmp, ignore_errors=True)
            raise
        self._wref[0] = self.world
        self.reqs = {}
        self.op_times = []
        self.started = False

    def _write_config(self):
        with open(self.cfg_path, 'w') as f:
            f.write(render_config(self.cfg_watchers, self.cfg_circus,
                                  self.cfg_sockets, self.tmp))

    def edit_config(self, edit):
        if self.tmp is None:
            return
        if "add" in edit:
            wc = dict(edit["add"])
            if not any(x["name"].lower() == wc["name"].lower()
                       for x in self.cfg_watchers):
                self.cfg_watchers.append(wc)
        elif "remove" in edit:
            self.cfg_watchers = [x for x in self.cfg_watchers
                                 if x["name"] != edit["remove"]]
        elif "set" in edit:
            name, key, value = edit["set"]
            for x in self.cfg_watchers:
                if x["name"] == name:
                    x[key] = value
        elif "circus" in edit:
            self.cfg_circus.update(edit["circus"])
        self._write_config()

    def start(self):
        self.world.start(drain=True)
        self.started = True

    def close(self):
        try:
            self.world.close()
        finally:
            for c in getattr(self, 'clients', []):
                try:
                    c.close()
                except OSError:
                    pass
            for s_ in getattr(self, 'socks', []):
                try:
                    s_.close()
                except OSError:
                    pass
            if getattr(self, 'tmp', None) is not None:
                shutil.rmtree(self.tmp, ignore_errors=True)

    # ------------------------------------------------------------------
    def apply(self, i, op):
        w = self.world
        kind = op[0]
        if kind == 'req':
            self.reqs[i] = w.request(op[1], json.loads(json.dumps(op[2])))
        elif kind == 'raw':
            self.reqs[i] = w.send_raw(op[1].encode('latin-1'))
        elif kind == 'exit':
            live = w.live()
            if live:
                w.kernel.external_death(live[op[1] % len(live)], op[2])
        elif kind == 'check':
            w.check()
        elif kind == 'idle':
            w.run_idle()
        elif kind == 'step':
            w.step(op[1])
        elif kind == 'adv':
            w.advance(op[1])
        elif kind == 'next':
            w.advance_to_next_timer()
        elif kind == 'drain':
            w.drain()
        elif kind == 'fault':
            w.kernel.arm_fault(op[1], op[2], op[3])
        elif kind == 'sig':
            w.deliver_signal(op[1])
        elif kind == 'cfg':
            self.edit_config(op[1])
        elif kind == 'write':
            # a live worker writes n bytes to its captured stdout / stderr
            # (a real pipe); nothing is written when the channel is not
            # captured or too much is still unread
            cands = sorted(p.pid for p in w.kernel.procs.values()
                           if p.state == 'running' and p.kind == 'worker'
                           and p.wfd.get(op[2]) is not None)
            if cands:
                pid = cands[op[1] % len(cands)]
                self.unread_cap = getattr(self, 'unread_cap', {})
                tot = self.unread_cap.get(pid, 0) + op[3]
                if tot <= 40000:
                    self.unread_cap[pid] = tot
                    try:
                        os.write(w.kernel.procs[pid].wfd[op[2]],
                                 b'x' * op[3])
                    except OSError:
                        pass
        elif kind == 'conn':
            if self.socks:
                self.connect(op[1])
        else:
            raise ValueError("unknown op %r" % (op,))

    def run(self, on_op=None, before_op=None):
        for i, op in enumerate(self.case["ops"]):
            if self.world.dead:
                break
            if before_op is not None:
                before_op(self, i, op)
            self.apply(i, op)
            if on_op is not None:
                on_op(self, i, op)

    def settle(self, checks=0, budget=600.0):
        """Stop injecting, run to quiescence, then run `checks` complete
        periodic checks.  Returns True when quiescent at the end."""
        w = self.world
        w.kernel.disarm()
        w.kernel.cancel_lifetimes()
        ok = w.drain(budget)
        for _ in range(checks):
            if not ok:
                break
            w.check()
            ok = w.drain(budget)
        return ok and not w.dead

    # -- read-only views through the control protocol ----------------------
    def status(self, name):
        r = self.world.probe('status', {'name': name})
        return None if r is None else r.get('status')

    def numprocesses(self, name):
        r = self.world.probe('numprocesses', {'name': name})
        return None if r is None else r.get('numprocesses')

    def pids(self, name):
        r = self.world.probe('list', {'name': name})
        return None if r is None else r.get('pids')

    def option(self, name, key):
        r = self.world.probe('options', {'name': name})
        if r is None or 'options' not in r:
            return None
        return r['options'].get(key)

    def watcher_names(self):
        r = self.world.probe('list', {})
        return None if r is None else r.get('watchers')


# ---------------------------------------------------------------------------
# Hypothesis building blocks
# ---------------------------------------------------------------------------

def behaviours(gts=(0.1, 0.3, 1.0, 2.0), lifetimes=True, children=0,
               exec_fail=False):
    from hypothesis import strategies as st

    @st.composite
    def beh(draw):
        kind = draw(st.sampled_from(
            ['die', 'die', 'die', 'exit', 'ignore', 'ignore']))
        b = {"react": kind}
        if kind != 'ignore':
            gt = draw(st.sampled_from(list(gts)))
            b["delay"] = draw(st.sampled_from(
                [0.0, 0.0, 0.05, max(gt - 0.1, 0.0), max(gt - 1e-3, 0.0),
                 gt, gt + 1e-3, gt * 10]))
            if kind == 'exit':
                b["code"] = draw(st.sampled_from([0, 0, 1, 3, 255]))
        if lifetimes and draw(st.integers(0, 5)) == 0:
            b["life"] = draw(st.sampled_from([0.0, 0.05, 0.5, 3.0]))
            b["life_status"] = draw(st.sampled_from(
                [["exit", 0], ["exit", 1], ["signal", 9], ["signal", 11]]))
        if draw(st.booleans()):
            b["klat"] = 0.002
        if exec_fail and draw(st.integers(0, 7)) == 0:
            b["exec_fail"] = draw(st.sampled_from([True, True, 'value']))
        if children and draw(st.integers(0, 2)) == 0:
            n = draw(st.integers(1, children))
            b["children"] = [
                {"react": draw(st.sampled_from(['die', 'ignore'])),
                 "delay": 0.0} for _ in range(n)]
        return b
    return beh()


def how_strategy():
    from hypothesis import strategies as st
    return st.one_of(
        st.tuples(st.just("exit"), st.sampled_from([0, 1, 2, 127, 255]))
        .map(list),
        st.tuples(st.just("signal"), st.sampled_from([9, 15, 11, 2, 6]))
        .map(list))


def pacing_ops():
    from hypothesis import strategies as st
    return st.one_of(
        st.just(["check"]), st.just(["check"]),
        st.just(["idle"]),
        st.tuples(st.just("step"), st.integers(1, 3)).map(list),
        st.tuples(st.just("adv"), st.sampled_from(
            [0.001, 0.05, 0.1, 0.3, 1.0, 2.5])).map(list),
        st.just(["next"]), st.just(["next"]),
        st.just(["drain"]),
    )


def death_ops():
    from hypothesis import strategies as st
    return st.one_of(
        st.tuples(st.just("exit"), st.integers(0, 5), how_strategy())
        .map(list),
        st.tuples(st.just("fault"), st.integers(1, 40), st.integers(0, 5),
                  how_strategy()).map(list))


def lifecycle_cases(requests=('incr', 'decr', 'set', 'restart', 'reload',
                              'stop', 'start'),
                    max_watchers=2, hooks=False, exec_fail=False,
                    children=0, max_ops=30, statuses_full=False,
                    extra_watcher_opts=None, kill_cmd=False, signal_cmd=False,
                    respawn_false=False, rm=False, quit=False,
                    set_other=False, config=False, job_control=False,
                    ondemand=False, capture=False, never_exec=False):
    """General history generator shared by several properties."""
    from hypothesis import strategies as st

    if statuses_full:
        how = st.one_of(
            st.tuples(st.just("exit"), st.integers(0, 255)).map(list),
            st.tuples(st.just("signal"), st.sampled_from(
                [1, 2, 3, 6, 9, 11, 13, 14, 15])).map(list))
    else:
        how = how_strategy()
    deaths = st.one_of(
        st.tuples(st.just("exit"), st.integers(0, 5), how).map(list),
        st.tuples(st.just("fault"), st.integers(1, 40), st.integers(0, 5),
                  how).map(list))

    @st.composite
    def case(draw):
        nw = draw(st.integers(1, max_watchers))
        use_config = config and draw(st.integers(0, 2)) == 0
        watchers = []
        gts = []
        for i in range(nw):
            singleton = draw(st.integers(0, 5)) == 0
            np_ = draw(st.integers(0, 1)) if singleton else \
                draw(st.integers(0, 3))
            gt = draw(st.sampled_from([0.1, 0.3, 1.0, 0.1, 0.3, 1.0, 0]))
            gts.append(gt)
            wc = {"name": "w%d" % i, "numprocesses": np_,
                  "graceful_timeout": gt,
                  "warmup_delay": draw(st.sampled_from([0, 0, 0.05, 0.3]))}
            if use_config:
                # the ini format takes whole seconds here
                wc["warmup_delay"] = draw(st.sampled_from([0, 0, 0, 1]))
            if singleton:
                wc["singleton"] = True
            if draw(st.integers(0, 5)) == 0:
                wc["send_hup"] = True
            if draw(st.integers(0, 5)) == 0:
                wc["stop_children"] = True
            if respawn_false and draw(st.integers(0, 6)) == 0:
                wc["respawn"] = False
            if draw(st.integers(0, 4)) == 0:
                wc["priority"] = draw(st.integers(0, 2))
            if hooks and draw(st.integers(0, 2)) == 0:
                hk = {}
                for hn in draw(st.lists(st.sampled_from(HOOK_NAMES),
                                        min_size=1, max_size=2,
                                        unique=True)):
                    hk[hn] = [draw(st.sampled_from(
                        ['true', 'false', 'raise', 'true', 'false', 'raise',
                         'none', 'raise-bare'])), draw(st.booleans())]
                wc["hooks"] = hk
            if extra_watcher_opts:
                wc.update(draw(extra_watcher_opts))
            if capture and not use_config and draw(st.booleans()):
                # output capture: real pipes registered with the loop
                wc["stdout_stream"] = {"class": "QueueStream"}
                if draw(st.booleans()):
                    wc["stderr_stream"] = {"class": "QueueStream"}
            watchers.append(wc)
        names = [wc["name"] for wc in watchers]
        tape = draw(st.lists(behaviours(gts=tuple(sorted(set(gts))),
                                        children=children,
                                        exec_fail=exec_fail), max_size=10))
        name = st.sampled_from(names)
        wt = st.booleans()

        def req(cmd, props):
            return st.tuples(st.just("req"), st.just(cmd), props).map(list)

        def ww(d):
            return st.tuples(d, wt).map(
                lambda t: dict(t[0], waiting=True) if t[1] else t[0])

        table = {
            'incr': req('incr', ww(st.fixed_dictionaries(
                {"name": name, "nb": st.integers(1, 2)}))),
            'decr': req('decr', ww(st.fixed_dictionaries(
                {"name": name, "nb": st.integers(1, 2)}))),
            'set': req('set', ww(st.fixed_dictionaries(
                {"name": name, "options": st.one_of(
                    st.fixed_dictionaries(
                        {"numprocesses": st.integers(0, 4)}),
                    st.fixed_dictionaries(
                        {"numprocesses": st.integers(0, 4)}),
                    st.sampled_from(
                        [{"cmd": "other --wid $(circus.wid)"},
                         {"env": {"A": "b"}}, {"max_age": 0},
                         {"working_dir": "/tmp"}, {"args": ["x"]},
                         {"graceful_timeout": 0.2}, {"warmup_delay": 0.05},
                         {"stop_signal": 2}, {"send_hup": True},
                         {"numprocesses": 2, "shell": False}]))
                    if set_other else st.fixed_dictionaries(
                        {"numprocesses": st.integers(0, 4)})}))),
            'restart': req('restart', ww(st.one_of(
                st.fixed_dictionaries(
                    {"name": name, "match": st.just("simple")}),
                st.fixed_dictionaries(
                    {"name": name, "match": st.just("simple")}),
                st.just({"name": "W*"})))),
            'reload': req('reload', ww(st.one_of(
                st.fixed_dictionaries(
                    {"name": name,
                     "graceful": st.sampled_from([True, True, False]),
                     "sequential": st.booleans()}),
                st.fixed_dictionaries(
                    {"name": name,
                     "graceful": st.sampled_from([True, True, False]),
                     "sequential": st.booleans()}),
                # the whole daemon
                st.fixed_dictionaries(
                    {"graceful": st.sampled_from([True, False]),
                     "sequential": st.booleans()})))),
            'stop': req('stop', ww(st.one_of(
                st.fixed_dictionaries({"name": name,
                                       "match": st.just("simple")}),
                st.fixed_dictionaries({"name": name,
                                       "match": st.just("simple")}),
                st.just({}), st.just({"name": "w*"}),
                st.just({"name": "w[0-9]+", "match": "regex"})))),
            'start': req('start', ww(st.one_of(
                st.fixed_dictionaries({"name": name,
                                       "match": st.just("simple")}),
                st.fixed_dictionaries({"name": name,
                                       "match": st.just("simple")}),
                st.just({}), st.just({"name": "w*"})))),
        }
        pool = [table[r] for r in requests]
        if kill_cmd:
            pool.append(req('kill', ww(st.fixed_dictionaries(
                {"name": name}, optional={
                    "signum": st.sampled_from([15, 2, 10, "HUP", "RTMIN+1",
                                               "SIGRTMIN+2"]),
                    "graceful_timeout": st.sampled_from([0.1, 0.25, 0,
                                                         0.0, 1.5])}))))
        if signal_cmd:
            pool.append(req('signal', st.fixed_dictionaries(
                {"name": name, "signum": st.sampled_from(
                    [15, 1, 10, 9, 19, 19, 18] if job_control
                    else [15, 1, 10, 9])},
                optional={"recursive": st.just(True),
                          "children": st.just(True)})))
        if rm:
            pool.append(req('rm', ww(st.fixed_dictionaries(
                {"name": name}, optional={"nostop": st.booleans()}))))
        if quit:
            pool.append(req('quit', ww(st.just({}))))
        if use_config:
            newname = st.sampled_from(["w%d" % nw, "w%d" % (nw + 1)])
            anyname = st.sampled_from(names + ["w%d" % nw])
            new_wc = st.fixed_dictionaries({
                "name": newname, "numprocesses": st.integers(0, 3),
                "graceful_timeout": st.sampled_from([0.1, 0.3, 1.0]),
                "warmup_delay": st.sampled_from([0, 0, 1])},
                optional={"priority": st.integers(0, 2)})
            edits = st.one_of(
                new_wc.map(lambda wc: {"add": wc}),
                new_wc.map(lambda wc: {"add": wc}),
                anyname.map(lambda n: {"remove": n}),
                st.tuples(anyname, st.just("numprocesses"),
                          st.integers(0, 3)).map(
                              lambda t: {"set": list(t)}),
                st.tuples(anyname, st.sampled_from(
                    [("graceful_timeout", 0.2), ("priority", 1),
                     ("cmd", "other --wid $(circus.wid)"),
                     ("send_hup", True), ("respawn", False)])).map(
                         lambda t: {"set": [t[0], t[1][0], t[1][1]]}),
                st.sampled_from([{"circus": {"httpd_port": 8081}},
                                 {"circus": {"warmup_delay": 1}}]))
            cfg_op = st.tuples(st.just("cfg"), edits).map(list)
            rl = req('reloadconfig', ww(st.just({})))
            pool += [cfg_op, cfg_op, rl, rl]
        reqs = st.one_of(*pool)
        if capture and any(wc.get("stdout_stream") for wc in watchers):
            # workers write: sizes around the redirector's 1024-byte buffer
            writes = st.tuples(
                st.just("write"), st.integers(0, 5),
                st.sampled_from(['stdout', 'stdout', 'stderr']),
                st.sampled_from([1, 7, 100, 1023, 1024, 1025, 2048, 3000,
                                 4096])).map(list)
            ops = draw(st.lists(st.one_of(reqs, reqs, pacing_ops(),
                                          pacing_ops(), deaths, deaths,
                                          writes, writes),
                                min_size=1, max_size=max_ops))
        else:
            ops = draw(st.lists(st.one_of(reqs, reqs, pacing_ops(),
                                          pacing_ops(), deaths, deaths),
                                min_size=1, max_size=max_ops))
        c = {"watchers": watchers, "tape": tape, "ops": ops}
        if ondemand and not use_config and draw(st.integers(0, 3)) == 0:
            # one on-demand watcher on a real managed socket; connections
            # are the socket events, noticed by the next periodic check
            wc = watchers[0]
            wc["on_demand"] = True
            wc["use_sockets"] = True
            if not wc.get("singleton"):
                wc["numprocesses"] = draw(st.integers(1, 3))
            c["sockets"] = [draw(st.sampled_from(['unix', 'inet']))]
            for other in watchers[1:]:
                if draw(st.booleans()):
                    other["use_sockets"] = True
            for _ in range(draw(st.integers(1, 3))):
                pos = draw(st.integers(0, len(ops)))
                burst = [["conn", 0]]
                if draw(st.integers(0, 4)) > 0:
                    burst.append(["check"])
                    burst += draw(st.lists(st.sampled_from(
                        [["idle"], ["step", 1], ["next"], ["adv", 0.05],
                         ["drain"]]), max_size=2))
                ops[pos:pos] = burst
        if use_config:
            c["config"] = True
            for wc in watchers:
                wc.pop("hooks", None)
            if draw(st.integers(0, 3)) == 0:
                c["arbiter"] = {"warmup_delay": 1}
        elif draw(st.integers(0, 3)) == 0:
            c["arbiter"] = {"warmup_delay": draw(st.sampled_from(
                [0.05, 0.2]))}
        if never_exec:
            # "fail to spawn": the documented max_retry values (-1 = retry
            # indefinitely) and a command that can never be executed
            if draw(st.integers(0, 5)) == 0:
                for wc in watchers:
                    if draw(st.booleans()):
                        wc["max_retry"] = draw(st.sampled_from(
                            [-1, -1, 0, 1, 3]))
            if draw(st.integers(0, 5)) == 0:
                c["default_beh"] = {"react": "die", "delay": 0.0,
                                    "exec_fail": draw(st.sampled_from(
                                        [True, True, 'value']))}
                if draw(st.booleans()):
                    c["tape"] = c["tape"][:draw(st.integers(0, 4))]
        return c
    return case()
