"""Runner: shards a check over processes, merges results, matches known
findings, writes replays and evidence, prints the interface lines.

Exit codes: 0 held / only known findings; 1 VIOLATION; 2 harness error.
"""
import hashlib
import importlib
import json
import multiprocessing
import os
import sys
import time
import traceback

ROOT = os.path.dirname(os.path.dirname(os.path.abspath(__file__)))
KNOWN_FILE = os.path.join(ROOT, 'known_findings.json')



def _printable(text):
    """Messages quote generated inputs verbatim (lone surrogates included):
    make them safe for any stdout encoding."""
    return text.encode('ascii', 'backslashreplace').decode('ascii')


def case_hash(case):
    return hashlib.sha1(json.dumps(case, sort_keys=True,
                                   default=repr).encode()).hexdigest()[:16]


def slug(s):
    return ''.join(c if c.isalnum() else '-' for c in s)[:60].strip('-')


class Violation(dict):
    """signature: narrow root-cause key; message: human text."""

    def __init__(self, signature, message, **extra):
        dict.__init__(self, signature=signature, message=message, **extra)


def load_known(prop):
    if not os.path.exists(KNOWN_FILE):
        return []
    with open(KNOWN_FILE) as f:
        data = json.load(f)
    return [e for e in data.get('entries', []) if e.get('property') == prop]


def open_signatures(prop):
    return sorted(set(s for e in load_known(prop)
                      if e.get('status') == 'open'
                      for s in e.get('signatures', [])))


class Stats(object):
    """Per-shard accumulator (picklable via .as_dict())."""

    def __init__(self, max_samples=2):
        self.evaluations = 0
        self.nontrivial = set()
        self.samples = []
        self.counters = {}
        self.known_hits = {}
        self.inconclusive = 0
        self.max_samples = max_samples

    def count(self, key, n=1):
        self.counters[key] = self.counters.get(key, 0) + n

    def record(self, case, nontrivial, classes=()):
        self.evaluations += 1
        for c in classes:
            self.count(c)
        if nontrivial:
            h = case_hash(case)
            if h not in self.nontrivial:
                self.nontrivial.add(h)
                if len(self.samples) < self.max_samples:
                    self.samples.append(case)

    def as_dict(self):
        return {"evaluations": self.evaluations,
                "nontrivial": sorted(self.nontrivial),
                "samples": self.samples, "counters": self.counters,
                "known_hits": self.known_hits,
                "inconclusive": self.inconclusive}


class _Found(Exception):
    pass


def hyp_search(strategy, execute, stats, seed, max_examples, known=(),
               max_rounds=4, shrink=True, stateful_label=None):
    """Generated search with known-finding exclusion and root-cause bucketing.

    execute(case) -> (violations, nontrivial: bool, classes: iterable[str])
    Returns list of {"signature","message","case"} for NEW signatures, each
    shrunk by Hypothesis within its own signature.
    """
    import hypothesis
    from hypothesis import given, settings, HealthCheck, Phase

    excluded = set(known)
    found = []
    phases = [Phase.generate, Phase.target]
    if shrink:
        phases.append(Phase.shrink)
    for rnd in range(max_rounds):
        holder = {"target": None, "last": None}

        def body(case):
            viols, nontrivial, classes = execute(case)
            stats.record(case, nontrivial, classes)
            new = []
            for v in viols:
                if v["signature"] in known:
                    stats.known_hits[v["signature"]] = \
                        stats.known_hits.get(v["signature"], 0) + 1
                elif v["signature"] not in excluded:
                    new.append(v)
            if not new:
                return
            if holder["target"] is None:
                holder["target"] = new[0]["signature"]
            hit = [v for v in new if v["signature"] == holder["target"]]
            if hit:
                holder["last"] = (case, hit[0])
                raise _Found(hit[0]["signature"])

        test = given(strategy)(body)
        test = settings(
            max_examples=max_examples, database=None, deadline=None,
            report_multiple_bugs=False, phases=phases,
            suppress_health_check=[HealthCheck.too_slow,
                                   HealthCheck.data_too_large,
                                   HealthCheck.filter_too_much],
            print_blob=False)(test)
        test = hypothesis.seed(seed * 7919 + rnd)(test)
        try:
            test()
        except _Found:
            case, v = holder["last"]
            found.append({"signature": v["signature"],
                          "message": v["message"], "case": case})
            excluded.add(v["signature"])
            continue
        except BaseException as e:
            # Hypothesis reports an example that failed once and passed when
            # replayed as flaky; for wall-clock (live) shards the recorded
            # observation stands and is reported as found
            if type(e).__name__ not in ('FlakyFailure', 'Flaky') or \
                    holder["last"] is None:
                raise
            case, v = holder["last"]
            found.append({"signature": v["signature"],
                          "message": v["message"], "case": case})
            excluded.add(v["signature"])
            continue
        break
    return found


def _run_one(args):
    modname, spec = args
    try:
        mod = importlib.import_module(modname)
        t0 = time.time()
        res = mod.run_shard(spec)
        res["wall"] = time.time() - t0
        res.setdefault("violations", [])
        return res
    except BaseException:
        return {"error": traceback.format_exc(), "spec": spec}


def run_check(modname, tier, seed, jobs=None):
    t0 = time.time()
    mod = importlib.import_module(modname)
    prop = mod.PROPERTY
    known_entries = load_known(prop)
    known = open_signatures(prop)
    status = 0
    lines = []
    regress = {"known_open_reproduced": 0, "known_open_stale": 0,
               "fixed_replayed": 0}

    # 1. regression tier: replays referenced by the known-findings file
    for e in known_entries:
        for rp in e.get('replays', []):
            path = os.path.join(ROOT, rp)
            with open(path) as f:
                rec = json.load(f)
            viols = mod.replay(rec["case"])
            sigs = set(v["signature"] for v in viols)
            if e.get('status') == 'open':
                if sigs & set(e.get('signatures', [])):
                    regress["known_open_reproduced"] += 1
                    lines.append("KNOWN-FINDING: property=%s %s" % (
                        prop, e.get('what_fails', '')))
                else:
                    regress["known_open_stale"] += 1
                other = [v for v in viols
                         if v["signature"] not in known]
            else:
                regress["fixed_replayed"] += 1
                other = [v for v in viols if v["signature"] not in known]
            for v in other:
                lines.append("VIOLATION property=%s replay=%s" % (prop, rp))
                lines.append("  # %s: %s" % (v["signature"], v["message"]))
                status = 1
    seen_lines = []
    for ln in lines:
        if ln not in seen_lines:
            seen_lines.append(ln)
            print(ln)
    sys.stdout.flush()

    # 2. generated search, sharded
    specs = mod.plan(tier, seed)
    for s in specs:
        s["known"] = known
        s["tier"] = tier
    jobs = jobs or int(os.environ.get('VERIF_JOBS', '16'))
    jobs = max(1, min(jobs, len(specs)))
    if jobs == 1:
        results = [_run_one((modname, s)) for s in specs]
    else:
        ctx = multiprocessing.get_context('fork')
        with ctx.Pool(jobs, maxtasksperchild=1) as pool:
            results = pool.map(_run_one, [(modname, s) for s in specs],
                               chunksize=1)

    errors = [r for r in results if "error" in r]
    if errors:
        r = errors[0]
        sys.stderr.write("HARNESS-ERROR in %d shard(s); first: %r\n%s\n" % (
            len(errors), {k: v for k, v in (r.get("spec") or {}).items()
                          if k != 'known'}, r["error"][-3000:]))
        return 2

    evaluations = 0
    nontrivial = set()
    samples = []
    counters = {}
    known_hits = {}
    inconclusive = 0
    buckets = {}
    exhaustive = None
    extra_cov = {}
    for r in results:
        evaluations += r.get("evaluations", 0)
        nontrivial.update(r.get("nontrivial", []))
        for s in r.get("samples", []):
            if len(samples) < 5:
                samples.append(s)
        for kk, vv in r.get("counters", {}).items():
            counters[kk] = counters.get(kk, 0) + vv
        for kk, vv in r.get("known_hits", {}).items():
            known_hits[kk] = known_hits.get(kk, 0) + vv
        inconclusive += r.get("inconclusive", 0)
        if "exhaustive" in r:
            exhaustive = (r["exhaustive"] if exhaustive is None
                          else (exhaustive and r["exhaustive"]))
        for kk, vv in r.get("coverage_extra", {}).items():
            extra_cov[kk] = vv
        for v in r.get("violations", []):
            if v["signature"] in known:
                known_hits[v["signature"]] = \
                    known_hits.get(v["signature"], 0) + 1
                continue
            b = buckets.get(v["signature"])
            size = len(json.dumps(v["case"], default=repr))
            if b is None or size < b[0]:
                buckets[v["signature"]] = (size, v)

    # a listed finding the search ran into is reported even when its saved
    # replay was not reproduced above
    for e in known_entries:
        if e.get('status') != 'open':
            continue
        ln = "KNOWN-FINDING: property=%s %s" % (prop, e.get('what_fails', ''))
        if ln not in seen_lines and any(
                known_hits.get(sg) for sg in e.get('signatures', [])):
            seen_lines.append(ln)
            print(ln)
    for sig in sorted(buckets):
        v = buckets[sig][1]
        sub = ('mutant-found' if os.environ.get('VERIF_NO_EVIDENCE')
               else os.path.join(prop, 'found'))
        d = os.path.join(ROOT, 'replays', sub)
        os.makedirs(d, exist_ok=True)
        rp = os.path.join('replays', sub, '%s-%s.json' % (
            slug(sig), case_hash(v["case"])[:8]))
        with open(os.path.join(ROOT, rp), 'w') as f:
            json.dump({"property": prop, "signature": sig,
                       "message": v["message"], "case": v["case"],
                       "tier": tier, "seed": seed}, f, indent=1,
                      default=repr)     # (key order is part of some cases)
        print("VIOLATION property=%s replay=%s" % (prop, rp))
        print(_printable("  # %s: %s" % (sig, v["message"])))
        status = 1

    floors = getattr(mod, 'check_floors', None)
    floor_msgs = floors(counters, evaluations, tier) if floors else []
    wall = time.time() - t0
    cov = {"evaluations": evaluations,
           "distinct_nontrivial": len(nontrivial),
           "rule": mod.RULE, "samples": samples,
           "class_counters": counters, "known_hits": known_hits,
           "inconclusive": inconclusive, "shards": len(specs),
           "regression_tier": regress}
    if exhaustive is not None:
        cov["exhaustive"] = bool(exhaustive)
    cov.update(extra_cov)
    ev = {"property_id": prop, "tier": tier, "seed": seed,
          "level": mod.LEVEL, "coverage": cov,
          "assumptions": list(getattr(mod, 'ASSUMPTIONS', [])),
          "wall_s": round(wall, 2),
          "violations": len(buckets) + (1 if status and not buckets else 0)}
    if not os.environ.get('VERIF_NO_EVIDENCE'):
        os.makedirs(os.path.join(ROOT, 'evidence'), exist_ok=True)
        with open(os.path.join(ROOT, 'evidence', prop + '.json'), 'w') as f:
            json.dump(ev, f, indent=1, sort_keys=True, default=repr)
    print("%s tier=%s seed=%d evaluations=%d distinct_nontrivial=%d "
          "known_hits=%d violations=%d wall=%.1fs" % (
              prop, tier, seed, evaluations, len(nontrivial),
              sum(known_hits.values()), len(buckets), wall))
    if floor_msgs:
        for m in floor_msgs:
            sys.stderr.write("HARNESS-ERROR vacuity floor: %s\n" % m)
        if status == 0:
            return 2
    return status


def run_replay(modname, path):
    mod = importlib.import_module(modname)
    with open(path) as f:
        rec = json.load(f)
    viols = mod.replay(rec["case"])
    known = open_signatures(mod.PROPERTY)
    st = 0
    for v in viols:
        if v["signature"] in known:
            print("KNOWN-FINDING: property=%s %s" % (mod.PROPERTY,
                                                    v["message"]))
        else:
            print("VIOLATION property=%s replay=%s" % (mod.PROPERTY, path))
            print(_printable("  # %s: %s" % (v["signature"],
                                             v["message"])))
            st = 1
    if not viols:
        print("replay: no violation")
    return st
