"""Conformance differential: the simulated kernel / FakePopen against real
processes and the real psutil.Popen.

Hypothesis draws short operation sequences (spawn a tiny real `sh` worker
that obeys / ignores / turns SIGTERM into an exit code / exits by itself /
has children; send signals; poll; waitpid(-1 | pid); status; is_running;
children) and runs them on both sides, comparing every return value and
exception class.  Run by setup.sh (--quick) and by C04's thorough tier.

python -m vfw.conformance [--quick] [--n N] [--seed S]
Exit 0 = agreement on every generated sequence, 1 = disagreement (printed).
"""
import json
import os
import signal
import sys
import time

import psutil

SETTLE = 0.04

KINDS = {
    "obey": ("exec sleep 100", {"react": "die", "delay": 0.0}),
    "ignore": ("trap '' TERM INT USR1; sleep 100 & wait; sleep 100",
               {"react": "ignore", "children_n": 1}),
    "exit3": ("trap 'exit 3' TERM INT USR1; sleep 100 & wait",
              {"react": "exit", "code": 3, "delay": 0.0, "children_n": 1}),
    "self7": ("exit 7", {"react": "die", "life": 0.0,
                         "life_status": ["exit", 7]}),
    "kids": ("sleep 100 & sleep 100 & wait",
             {"react": "die", "delay": 0.0, "children_n": 2}),
}


def _beh(kind):
    b = dict(KINDS[kind][1])
    n = b.pop("children_n", 0)
    if n:
        b["children"] = [{"react": "die", "delay": 0.0} for _ in range(n)]
    return b


class RealSide(object):
    def __init__(self):
        self.procs = []

    def spawn(self, kind):
        p = psutil.Popen(['sh', '-c', KINDS[kind][0]], close_fds=True)
        self.procs.append(p)
        time.sleep(SETTLE)
        return len(self.procs) - 1

    def idx(self, pid):
        for i, p in enumerate(self.procs):
            if p.pid == pid:
                return i
        return None

    def waitpid(self, pid, flags):
        return os.waitpid(pid, flags)

    def settle(self):
        time.sleep(SETTLE)

    def cleanup(self):
        for p in self.procs:
            try:
                for c in p.children(recursive=True):
                    try:
                        c.kill()
                    except Exception:
                        pass
            except Exception:
                pass
            try:
                p.kill()
            except Exception:
                pass
        time.sleep(0.02)
        for p in self.procs:
            try:
                os.waitpid(p.pid, os.WNOHANG)
            except Exception:
                pass
        # orphans (sleep) are killed by pattern-free bookkeeping above


class FakeSide(object):
    def __init__(self):
        from vfw.kernel import SimKernel, make_popen
        self.t = [1000.0]
        self.k = SimKernel(lambda: self.t[0])
        self.Popen = make_popen(self.k)
        self.procs = []

    def spawn(self, kind):
        self.k.behaviour_tape.append(_beh(kind))
        p = self.Popen(['sh', '-c', KINDS[kind][0]], close_fds=True)
        self.procs.append(p)
        self.settle()
        return len(self.procs) - 1

    def idx(self, pid):
        for i, p in enumerate(self.procs):
            if p.pid == pid:
                return i
        return None

    def waitpid(self, pid, flags):
        return self.k.waitpid(pid, flags)

    def settle(self):
        self.t[0] += SETTLE
        self.k.apply_due()

    def cleanup(self):
        pass


def run_side(side, ops):
    out = []
    for op in ops:
        kind = op[0]
        try:
            if kind == 'spawn':
                side.spawn(op[1])
                res = 'ok'
            else:
                if not side.procs:
                    out.append(('skip',))
                    continue
                p = side.procs[op[1] % len(side.procs)]
                if kind == 'signal':
                    p.send_signal(op[2])
                    side.settle()
                    res = 'ok'
                elif kind == 'poll':
                    res = p.poll()
                elif kind == 'returncode':
                    res = p.returncode
                elif kind == 'status':
                    st = p.status()
                    res = ('zombie' if st == psutil.STATUS_ZOMBIE else
                           'stopped' if st == psutil.STATUS_STOPPED else
                           'alive')
                elif kind == 'is_running':
                    res = p.is_running()
                elif kind == 'children':
                    res = len(p.children(recursive=bool(op[2])))
                elif kind == 'waitpid':
                    flags = os.WNOHANG
                    if len(op) > 2 and op[2]:
                        flags |= os.WUNTRACED
                    pid, sts = side.waitpid(p.pid, flags)
                    res = (side.idx(pid) if pid else 0, sts)
                elif kind == 'waitany':
                    got = []
                    while True:
                        pid, sts = side.waitpid(-1, os.WNOHANG)
                        if not pid:
                            got.append('none-ready')
                            break
                        got.append((side.idx(pid), sts))
                    res = sorted(got, key=repr)
                else:
                    raise ValueError(kind)
        except psutil.NoSuchProcess:
            res = 'exc:NoSuchProcess'
        except ChildProcessError:
            res = 'exc:ECHILD'
            if kind == 'waitany':
                res = sorted(got + ['exc:ECHILD'], key=repr)
        except ProcessLookupError:
            res = 'exc:ESRCH'
        out.append((kind, res))
    return out


def strategy():
    from hypothesis import strategies as st
    idx = st.integers(0, 2)
    op = st.one_of(
        st.tuples(st.just('spawn'), st.sampled_from(sorted(KINDS))),
        st.tuples(st.just('signal'), idx, st.sampled_from(
            [int(signal.SIGTERM), int(signal.SIGKILL), int(signal.SIGINT),
             0, int(signal.SIGUSR1), int(signal.SIGCONT),
             int(signal.SIGSTOP), int(signal.SIGSTOP),
             int(signal.SIGCONT)])),
        st.tuples(st.just('poll'), idx),
        st.tuples(st.just('returncode'), idx),
        st.tuples(st.just('status'), idx),
        st.tuples(st.just('is_running'), idx),
        st.tuples(st.just('children'), idx, st.integers(0, 1)),
        st.tuples(st.just('waitpid'), idx, st.integers(0, 1)),
        st.tuples(st.just('waitany'), idx))
    return st.lists(op, min_size=2, max_size=8).map(
        lambda ops: [('spawn', 'obey')] + [list(o) for o in ops]
        if ops[0][0] != 'spawn' else [list(o) for o in ops])


def main(argv):
    import argparse
    ap = argparse.ArgumentParser()
    ap.add_argument('--quick', action='store_true')
    ap.add_argument('--n', type=int, default=None)
    ap.add_argument('--seed', type=int, default=int(
        os.environ.get('VERIF_SEED', '1')))
    a = ap.parse_args(argv)
    n = a.n or (25 if a.quick else 200)
    import hypothesis
    from hypothesis import given, settings, HealthCheck, Phase
    count = [0]
    retried = [0]
    bad = []

    @hypothesis.seed(a.seed)
    @settings(max_examples=n, database=None, deadline=None,
              phases=[Phase.generate],
              suppress_health_check=list(HealthCheck))
    @given(strategy())
    def t(ops):
        f = run_side(FakeSide(), ops)
        # the real side depends on scheduling (a shell needs a moment to
        # install its traps): a disagreement counts only when it shows on
        # three runs in a row
        for _attempt in range(3):
            real = RealSide()
            try:
                r = run_side(real, ops)
            finally:
                real.cleanup()
            if r == f:
                break
            retried[0] += 1
            time.sleep(0.2)
        count[0] += 1
        if r != f:
            bad.append((ops, r, f))
            raise AssertionError("kernel model disagrees with real kernel")
    try:
        t()
    except BaseException:
        if not bad:
            raise
        ops, r, f = bad[-1]
        print("CONFORMANCE-MISMATCH ops=%s" % json.dumps(ops))
        for x, y in zip(r, f):
            print("   real=%r fake=%r%s" % (x, y, '' if x == y else '  <--'))
        return 1
    print("conformance: %d sequences agree (real psutil.Popen vs "
          "FakePopen)" % count[0])
    out = os.path.join(os.path.dirname(os.path.dirname(
        os.path.abspath(__file__))), '.work')
    os.makedirs(out, exist_ok=True)
    with open(os.path.join(out, 'conformance.json'), 'w') as fh:
        json.dump({"sequences": count[0], "seed": a.seed,
                   "real_side_retries": retried[0]}, fh)
    return 0


if __name__ == '__main__':
    sys.exit(main(sys.argv[1:]))
