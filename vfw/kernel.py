"""Simulated kernel: process table, signals, waitpid, and a psutil.Popen fake.

Semantics mirrored (psutil 7.2 / CPython 3.12 subprocess on Linux; each is
also exercised against the real thing by vfw/conformance.py):

* kill(pid, sig): ESRCH when the pid is gone; succeeds without effect on a
  zombie; SIGKILL terminates a running process (after ``klat`` seconds);
  signal 0 probes; default-ignored signals do nothing; any other signal is
  handed to the process' scripted behaviour.
* SIGSTOP stops a process (psutil status STATUS_STOPPED; still "running" for
  waitpid(WNOHANG) and is_running); while stopped every signal except SIGKILL
  and SIGCONT stays pending and a scripted delayed exit is frozen; SIGCONT
  resumes it and the pending signals are delivered in order.
* waitpid(-1 | pid, WNOHANG): (0, 0) while children exist but none is a
  zombie; ECHILD when there is no such child; otherwise reaps one zombie.
* a dying process becomes a zombie while its parent is alive and has not
  waited; its own children are re-parented to init (pid 1), whose zombies are
  reaped at once.
* subprocess.Popen.poll() reaps with waitpid(pid, WNOHANG); ECHILD there
  leaves returncode 0.  psutil status(): zombie -> STATUS_ZOMBIE, gone ->
  NoSuchProcess; is_running(): True for running and zombie; children(): the
  processes whose ppid is this pid ([] for a zombie, NoSuchProcess if gone).
"""
import errno
import heapq
import os
import signal as _signal
import sys

import psutil

# simulated pids live above the kernel's pid_max so that no code path, however
# mutated, can ever address a real process with one of them
DAEMON_PID = 4999999
FIRST_PID = 5000000

IGNORED_BY_DEFAULT = set(
    int(getattr(_signal, n)) for n in ('SIGCHLD', 'SIGURG', 'SIGWINCH',
                                       'SIGCONT') if hasattr(_signal, n))
# terminal job-control stops are not modelled: treated as no-ops
NOT_MODELLED = set(
    int(getattr(_signal, n)) for n in ('SIGTSTP', 'SIGTTIN',
                                       'SIGTTOU') if hasattr(_signal, n))
SIGSTOP = int(_signal.SIGSTOP)
SIGCONT = int(_signal.SIGCONT)

OBEDIENT = {"react": "die", "delay": 0.0}


def wstatus_exit(code):
    return (code & 0xFF) << 8


def wstatus_signal(sig):
    return sig & 0x7F


class SimProc(object):
    __slots__ = ('pid', 'ppid', 'state', 'wstatus', 'beh', 'rec', 'kind',
                 'spawned_at', 'died_at', 'pending_exit', 'wfd', 'owner',
                 'cause', 'creator', 'stopped', 'held', 'held_exit',
                 'pending_cause', 'died_ncall', 'stop_unreported')

    def __init__(self, pid, ppid, beh, kind, t, rec=None, owner=None):
        self.pid = pid
        self.ppid = ppid
        self.state = 'running'
        self.wstatus = None
        self.beh = beh or {}
        self.rec = rec
        self.kind = kind
        self.spawned_at = t
        self.died_at = None
        self.pending_exit = None      # (t, wstatus) earliest scheduled death
        self.wfd = {}                 # channel -> write fd (real pipe)
        self.owner = owner            # watcher name for workers
        self.cause = None
        self.creator = ppid           # original parent, never re-parented
        self.stopped = False          # SIGSTOPped
        self.stop_unreported = False  # waitpid(WUNTRACED) not told yet
        self.held = []                # signals pending while stopped
        self.held_exit = None         # (remaining, wstatus, cause) frozen
        self.pending_cause = None
        self.died_ncall = None        # kernel-call count at death (ordering)


class SimKernel(object):

    def __init__(self, clock):
        self.clock = clock            # callable -> virtual time
        self.procs = {}
        self.next_pid = FIRST_PID
        self.events = []              # heap of (t, seq, pid, wstatus, cause)
        self._seq = 0
        self.ncalls = 0
        self.call_log = []            # (ncall, name, pid)
        self.spawn_log = []
        self.signal_log = []
        self.death_log = []
        self.reap_log = []
        self.foreign_kills = []       # os.kill on pids outside the table
        self.faults = []              # dicts {at, victim, how}
        self.faults_fired = []
        self.behaviour_tape = []
        self.tape_pos = 0
        self.default_beh = dict(OBEDIENT)
        self.ctx = None               # request context label (set by world)
        self.victims = None           # callable -> list of candidate pids
        self.spawn_observer = None
        self.excl_probe = None        # -> name of the exclusive operation in flight
        self.preexec_probe = None     # callable run in a forked child after
                                      # circus' preexec function (see C07)
        self.log_calls = False
        self.frozen = False           # settle: no spontaneous events
        self.open_files = []
        self.spawn_cost = None

    # -- time / events ---------------------------------------------------
    def now(self):
        return self.clock()

    def schedule_exit(self, pid, t, wstatus, cause):
        p = self.procs[pid]
        if p.state != 'running':
            return
        if p.pending_exit is not None and p.pending_exit[0] <= t:
            return
        p.pending_exit = (t, wstatus)
        p.pending_cause = cause
        self._seq += 1
        heapq.heappush(self.events, (t, self._seq, pid, wstatus, cause))

    def next_event_time(self):
        while self.events:
            t, _, pid, ws, cause = self.events[0]
            p = self.procs.get(pid)
            if (p is None or p.state != 'running' or
                    p.pending_exit != (t, ws)):
                heapq.heappop(self.events)
                continue
            if self.frozen and cause == 'lifetime':
                heapq.heappop(self.events)
                p.pending_exit = None
                continue
            return t
        return None

    def apply_due(self):
        now = self.now()
        while True:
            t = self.next_event_time()
            if t is None or t > now + 1e-12:
                return
            t, _, pid, ws, cause = heapq.heappop(self.events)
            self._die(pid, ws, t, cause)

    def cancel_lifetimes(self):
        self.frozen = True
        self.next_event_time()

    # -- faults ----------------------------------------------------------
    def arm_fault(self, k, victim, how):
        """At the k-th kernel call from now (1-based) make the victim-th
        live worker die; how = ['exit', code] | ['signal', n]."""
        self.faults.append({"at": self.ncalls + k, "victim": victim,
                            "how": list(how)})

    def disarm(self):
        self.faults = []

    def boundary(self, name, pid=None):
        self.apply_due()
        self.ncalls += 1
        if self.log_calls:
            self.call_log.append((self.ncalls, name, pid))
        if self.faults:
            due = [f for f in self.faults if f["at"] == self.ncalls]
            if due:
                self.faults = [f for f in self.faults
                               if f["at"] != self.ncalls]
                for f in due:
                    self._fire(f, name, pid)

    def _fire(self, f, name, pid):
        cands = self.live_workers()
        if not cands:
            return
        v = cands[f["victim"] % len(cands)]
        ws = (wstatus_exit(f["how"][1]) if f["how"][0] == 'exit'
              else wstatus_signal(f["how"][1]))
        self.faults_fired.append({"ncall": self.ncalls, "before": name,
                                  "call_pid": pid, "victim": v,
                                  "how": f["how"], "t": self.now()})
        self._die(v, ws, self.now(), 'fault')

    # -- table -----------------------------------------------------------
    def live_workers(self, owner=None):
        return sorted(p.pid for p in self.procs.values()
                      if p.kind == 'worker' and p.state == 'running' and
                      (owner is None or p.owner == owner))

    def effective_live(self, owner=None):
        """Running workers that have no SIGKILL on its way (a process
        that was sent SIGKILL dies within the kill latency)."""
        killed = set(e["pid"] for e in self.signal_log
                     if e["sig"] == 9 and e["delivered"])
        return [p for p in self.live_workers(owner) if p not in killed]

    def zombies(self):
        return sorted(p.pid for p in self.procs.values()
                      if p.state == 'zombie' and p.ppid == DAEMON_PID)

    def state(self, pid):
        p = self.procs.get(pid)
        return p.state if p is not None else 'gone'

    def _alloc(self):
        pid = self.next_pid
        self.next_pid += 1
        return pid

    def add_proc(self, ppid, beh, kind, rec=None, owner=None):
        pid = self._alloc()
        p = SimProc(pid, ppid, beh, kind, self.now(), rec, owner)
        self.procs[pid] = p
        life = (beh or {}).get("life")
        if life is not None and not self.frozen:
            ls = (beh or {}).get("life_status", ["exit", 0])
            ws = (wstatus_exit(ls[1]) if ls[0] == 'exit'
                  else wstatus_signal(ls[1]))
            self.schedule_exit(pid, self.now() + life, ws, 'lifetime')
        for cb in (beh or {}).get("children", []) or []:
            self.add_proc(pid, cb, 'child', owner=owner)
        return pid

    def _die(self, pid, wstatus, t, cause):
        p = self.procs.get(pid)
        if p is None or p.state != 'running':
            return
        p.wstatus = wstatus
        p.died_at = t
        p.died_ncall = self.ncalls
        p.pending_exit = None
        p.cause = cause
        parent = self.procs.get(p.ppid)
        parent_alive = (p.ppid == DAEMON_PID or
                        (parent is not None and parent.state == 'running'))
        p.state = 'zombie' if parent_alive else 'gone'
        self.death_log.append({"t": t, "pid": pid, "wstatus": wstatus,
                               "cause": cause, "ncall": self.ncalls})
        for fd in list(p.wfd.values()):
            try:
                os.close(fd)
            except OSError:
                pass
        p.wfd = {}
        # orphan the children; init reaps their zombies
        for c in self.procs.values():
            if c.ppid == pid:
                c.ppid = 1
                if c.state == 'zombie':
                    c.state = 'gone'

    def external_death(self, pid, how):
        """The harness makes a process die now (own exit or outside kill)."""
        self.apply_due()
        ws = (wstatus_exit(how[1]) if how[0] == 'exit'
              else wstatus_signal(how[1]))
        self._die(pid, ws, self.now(), 'external')

    # -- syscalls --------------------------------------------------------
    def spawn(self, rec, owner=None):
        self.boundary('spawn')
        if self.tape_pos < len(self.behaviour_tape):
            beh = self.behaviour_tape[self.tape_pos]
        else:
            beh = self.default_beh
        self.tape_pos += 1
        rec = dict(rec)
        rec["t"] = self.now()
        rec["ncall"] = self.ncalls
        rec["beh"] = beh
        rec["owner"] = owner
        rec["excl"] = self.excl_probe() if self.excl_probe else None
        if beh.get("exec_fail"):
            rec["failed"] = True
            rec["pid"] = None
            self.spawn_log.append(rec)
            if getattr(self, 'fail_cost', None) is not None:
                self.fail_cost()   # a failed fork+exec still takes time
            if beh.get("exec_fail") == 'value':
                # what a misconfigured rlimit / unknown user / unbalanced
                # quote gives: the spawn fails before anything is forked
                raise ValueError("simulated spawn failure (ValueError)")
            raise OSError(errno.ENOENT, "simulated exec failure")
        pid = self.add_proc(DAEMON_PID, beh, 'worker', rec, owner)
        rec["pid"] = pid
        if self.spawn_cost is not None:
            self.spawn_cost()      # fork+exec takes (a little) time
        if self.spawn_observer is not None:
            self.spawn_observer(rec)
        self.spawn_log.append(rec)
        return pid

    def kill(self, pid, sig, by='daemon'):
        self.boundary('kill', pid)
        sig = int(sig)
        if sig < 0 or sig > 64:
            raise OSError(errno.EINVAL, "Invalid argument")
        p = self.procs.get(pid)
        st = 'gone' if p is None else p.state
        entry = {"t": self.now(), "pid": pid, "sig": sig, "state": st,
                 "delivered": st == 'running' and sig != 0, "by": by,
                 "ncall": self.ncalls, "ctx": self.ctx,
                 "known": p is not None}
        if by == 'daemon':
            self.signal_log.append(entry)
        if p is None:
            if by == 'daemon':
                self.foreign_kills.append(entry)
            raise ProcessLookupError(errno.ESRCH, "No such process")
        if st == 'gone':
            raise ProcessLookupError(errno.ESRCH, "No such process")
        if st == 'zombie' or sig == 0:
            return
        self._deliver(p, sig)

    def _deliver(self, p, sig):
        now = self.now()
        if sig == int(_signal.SIGKILL):
            lat = p.beh.get("klat", 0.0)
            ws = wstatus_signal(sig)
            if lat <= 0:
                self._die(p.pid, ws, now, 'sigkill')
            else:
                self.schedule_exit(p.pid, now + lat, ws, 'sigkill')
            return
        if sig == SIGCONT:
            if p.stopped:
                p.stopped = False
                p.stop_unreported = False
                if p.held_exit is not None:
                    rem, ws, cause = p.held_exit
                    p.held_exit = None
                    if rem <= 0:
                        self._die(p.pid, ws, now, cause)
                    else:
                        self.schedule_exit(p.pid, now + rem, ws, cause)
                held, p.held = p.held, []
                for s_ in held:
                    if p.state == 'running':
                        self._deliver(p, s_)
            return
        if sig == SIGSTOP:
            if not p.stopped:
                p.stopped = True
                p.stop_unreported = True
                if p.pending_exit is not None and \
                        p.pending_cause != 'sigkill':
                    # a stopped process does not run towards its exit
                    p.held_exit = (p.pending_exit[0] - now,
                                   p.pending_exit[1], p.pending_cause)
                    p.pending_exit = None
            return
        if sig in IGNORED_BY_DEFAULT or sig in NOT_MODELLED:
            return
        if p.stopped:
            p.held.append(sig)
            return
        react = p.beh.get("react", "die")
        only = p.beh.get("only")           # reacts only to these signals
        if only is not None and sig not in only:
            react = "ignore"
        if react == "ignore":
            return
        delay = p.beh.get("delay", 0.0)
        if react == "exit":
            ws = wstatus_exit(p.beh.get("code", 0))
        else:
            ws = wstatus_signal(sig)
        if delay <= 0:
            self._die(p.pid, ws, now, 'signal')
        else:
            self.schedule_exit(p.pid, now + delay, ws, 'signal')

    def waitpid(self, pid, options):
        self.boundary('waitpid', pid)
        if not (options & os.WNOHANG):
            raise RuntimeError("blocking waitpid is not simulated")
        if pid == -1:
            kids = [p for p in self.procs.values()
                    if p.ppid == DAEMON_PID and p.state != 'gone']
            if not kids:
                raise ChildProcessError(errno.ECHILD, "No child processes")
            zs = sorted((p for p in kids if p.state == 'zombie'),
                        key=lambda p: p.pid)
            if not zs:
                if options & os.WUNTRACED:
                    # a stopped child is reported once per stop
                    for c in sorted(kids, key=lambda p: p.pid):
                        if c.state == 'running' and c.stopped and \
                                c.stop_unreported:
                            c.stop_unreported = False
                            return (c.pid, (int(SIGSTOP) << 8) | 0x7f)
                return (0, 0)
            p = zs[0]
        else:
            p = self.procs.get(pid)
            if p is None or p.ppid != DAEMON_PID or p.state == 'gone':
                raise ChildProcessError(errno.ECHILD, "No child processes")
            if p.state != 'zombie':
                if (options & os.WUNTRACED) and p.state == 'running' and \
                        p.stopped and p.stop_unreported:
                    p.stop_unreported = False
                    return (p.pid, (int(SIGSTOP) << 8) | 0x7f)
                return (0, 0)
        p.state = 'gone'
        self.reap_log.append({"t": self.now(), "pid": p.pid,
                              "ncall": self.ncalls})
        return (p.pid, p.wstatus)

    def children_of(self, pid, recursive=False):
        out = []
        direct = sorted(c.pid for c in self.procs.values()
                        if c.ppid == pid and c.state != 'gone')
        for c in direct:
            out.append(c)
            if recursive:
                out.extend(self.children_of(c, True))
        return out

    def descendants_ever(self, pid):
        """pids that were created as (grand)children of pid (by spawn
        structure, regardless of later re-parenting)."""
        out = []
        for c in sorted(self.procs.values(), key=lambda p: p.pid):
            if c.creator == pid:
                out.append(c.pid)
                out.extend(self.descendants_ever(c.pid))
        return out


class FakeProcess(object):
    """The part of psutil.Process circus uses, over the simulated table."""

    def __init__(self, kernel, pid):
        self._k = kernel
        self.pid = pid

    # signals
    def send_signal(self, sig):
        try:
            self._k.kill(self.pid, sig)
        except ProcessLookupError:
            raise psutil.NoSuchProcess(self.pid)

    def terminate(self):
        self.send_signal(_signal.SIGTERM)

    def kill(self):
        self.send_signal(_signal.SIGKILL)

    # state
    def status(self):
        self._k.boundary('status', self.pid)
        st = self._k.state(self.pid)
        if st == 'gone':
            raise psutil.NoSuchProcess(self.pid)
        if st == 'zombie':
            return psutil.STATUS_ZOMBIE
        if self._k.procs[self.pid].stopped:
            return psutil.STATUS_STOPPED
        return psutil.STATUS_SLEEPING

    def is_running(self):
        self._k.boundary('is_running', self.pid)
        return self._k.state(self.pid) != 'gone'

    def children(self, recursive=False):
        self._k.boundary('children', self.pid)
        st = self._k.state(self.pid)
        if st == 'gone':
            raise psutil.NoSuchProcess(self.pid)
        if st == 'zombie':
            return []
        return [FakeProcess(self._k, c)
                for c in self._k.children_of(self.pid, recursive)]

    # informational getters used by circus.util.get_info
    def _need(self):
        if self._k.state(self.pid) == 'gone':
            raise psutil.NoSuchProcess(self.pid)

    def memory_info(self):
        self._need()
        return (0, 0)

    def cpu_percent(self, interval=None):
        self._need()
        if interval is not None and interval > 0.0:
            # psutil blocks in time.sleep(interval) to compare two samples
            fn = getattr(self._k, 'sleep_fn', None)
            if fn is not None:
                fn(interval)
        return 0.0

    def memory_percent(self):
        self._need()
        return 0.0

    def cpu_times(self):
        self._need()
        return (0.0, 0.0)

    def nice(self):
        self._need()
        return 0

    def cmdline(self):
        self._need()
        p = self._k.procs[self.pid]
        if p.rec and p.state == 'running':
            a = p.rec.get("args")
            return list(a) if isinstance(a, (list, tuple)) else [str(a)]
        return []

    def create_time(self):
        self._need()
        return self._k.procs[self.pid].spawned_at

    def username(self):
        self._need()
        return 'sim'


def _run_preexec(preexec_fn, probe, out_pipe=False, err_pipe=False):
    """What the child does between fork and exec, for real: a forked copy of
    this process puts stand-in pipes on its descriptors 1 / 2 where Popen
    would have put the capture pipes, runs circus' preexec function, then
    reports probe() (a JSON-able view of its descriptors) together with what
    its descriptors 1 and 2 are now, and exits."""
    import json as _json
    import stat as _stat
    r, w = os.pipe()
    pid = os.fork()
    if pid == 0:
        out = b'null'
        try:
            os.close(r)
            try:
                inos = {}
                for fd, wanted in ((1, out_pipe), (2, err_pipe)):
                    if wanted:
                        pr, pw = os.pipe()
                        os.dup2(pw, fd)
                        os.close(pw)
                        os.close(pr)
                        inos[fd] = os.fstat(fd).st_ino
                preexec_fn()
                std = {}
                for fd in (1, 2):
                    try:
                        st_ = os.fstat(fd)
                    except OSError:
                        std[str(fd)] = 'closed'
                        continue
                    if fd in inos and st_.st_ino == inos[fd] and \
                            _stat.S_ISFIFO(st_.st_mode):
                        std[str(fd)] = 'pipe'
                    elif _stat.S_ISCHR(st_.st_mode) and \
                            st_.st_rdev == os.makedev(1, 3):
                        std[str(fd)] = 'null'
                    else:
                        std[str(fd)] = 'other'
                out = _json.dumps({"view": probe(), "std": std}).encode()
            except BaseException as e:       # noqa
                out = _json.dumps({"view": {"error": repr(e)},
                                   "std": None}).encode()
        finally:
            try:
                os.write(w, out)
            finally:
                os._exit(0)
    os.close(w)
    chunks = []
    while True:
        b = os.read(r, 65536)
        if not b:
            break
        chunks.append(b)
    os.close(r)
    os.waitpid(pid, 0)
    try:
        return _json.loads(b''.join(chunks).decode())
    except ValueError:
        return None


class FakePopen(FakeProcess):
    """psutil.Popen stand-in.  Bound to a kernel through make_popen()."""

    _kernel = None

    def __init__(self, args, cwd=None, shell=False, preexec_fn=None,
                 env=None, close_fds=True, executable=None, stdout=None,
                 stderr=None, **kw):
        k = self._kernel
        rec = {"args": list(args) if isinstance(args, (list, tuple))
               else args,
               "cwd": cwd, "shell": shell,
               "env": None if env is None else dict(env),
               "close_fds": close_fds, "executable": executable,
               "stdout_pipe": stdout is not None,
               "stderr_pipe": stderr is not None,
               "extra": sorted(kw)}
        owner = None
        f = sys._getframe(1)
        for _ in range(4):
            if f is None:
                break
            obj = f.f_locals.get('self')
            if obj is not None and hasattr(obj, 'wid') and \
                    hasattr(obj, 'name'):
                owner = obj.name
                rec["wid"] = obj.wid
                break
            f = f.f_back
        if k.preexec_probe is not None and preexec_fn is not None:
            res_ = _run_preexec(preexec_fn, k.preexec_probe,
                                stdout is not None, stderr is not None)
            rec["child_view"] = (res_ or {}).get("view")
            rec["child_std"] = (res_ or {}).get("std")
        pid = k.spawn(rec, owner)      # may raise OSError (exec failure)
        FakeProcess.__init__(self, k, pid)
        self.returncode = None
        self.stdout = None
        self.stderr = None
        p = k.procs[pid]
        if stdout is not None:
            r, w = os.pipe()
            p.wfd['stdout'] = w
            self.stdout = os.fdopen(r, 'rb')
            k.open_files.append(self.stdout)
        if stderr is not None:
            r, w = os.pipe()
            p.wfd['stderr'] = w
            self.stderr = os.fdopen(r, 'rb')
            k.open_files.append(self.stderr)

    def poll(self):
        if self.returncode is not None:
            return self.returncode
        try:
            pid, sts = self._k.waitpid(self.pid, os.WNOHANG)
        except ChildProcessError:
            self.returncode = 0
            return self.returncode
        if pid == self.pid:
            if os.WIFSIGNALED(sts):
                self.returncode = -os.WTERMSIG(sts)
            else:
                self.returncode = os.WEXITSTATUS(sts)
        return self.returncode

    def wait(self, timeout=None):
        r = self.poll()
        if r is None:
            raise psutil.TimeoutExpired(timeout, self.pid)
        return r


def make_popen(kernel):
    return type('BoundFakePopen', (FakePopen,), {'_kernel': kernel})
