"""Live tier (E3): generated scenarios on a real circusd with real children.

A scenario becomes an ini file plus a tiny worker script; circusd runs as a
subprocess, is driven through CircusClient and inspected from outside
(/proc, filesystem, exit status).  Wall-clock waits that run out are
*inconclusive* (counted), never violations, unless the generous bound
(>= 10 x the configured timeouts) is exceeded with the daemon demonstrably
alive - that is C08's own violation.
"""
import json
import os
import shutil
import signal
import subprocess
import sys
import tempfile
import time

from vfw.runner import Violation

WORKER = r'''
import json, os, signal, sys, time
out = os.environ.get("VERIF_DUMP") or sys.argv[sys.argv.index("--dump") + 1]
def rl(p):
    try:
        return os.readlink(p)
    except OSError:
        return None
fds = {}
for i in range(0, 128):
    t = rl("/proc/self/fd/%d" % i)
    if t is not None:
        fds[str(i)] = t
rec = {"pid": os.getpid(), "ppid": os.getppid(),
       "argv": open("/proc/self/cmdline", "rb").read().decode("utf8", "surrogateescape").split("\0")[:-1],
       "environ": dict(kv.split("=", 1) for kv in open("/proc/self/environ", "rb").read().decode("utf8", "surrogateescape").split("\0") if "=" in kv),
       "cwd": os.getcwd(), "fds": fds, "t": time.time()}
siglog = os.path.join(out, "%d.sig" % os.getpid())
def on_sig(signum, frame):
    with open(siglog, "a") as f:
        f.write("%d %.6f\n" % (signum, time.time()))
    if "--stubborn" not in sys.argv:
        os._exit(0)
for s_ in (signal.SIGTERM, signal.SIGINT, signal.SIGQUIT, signal.SIGUSR1, signal.SIGHUP):
    signal.signal(s_, on_sig)
tmp = os.path.join(out, ".%d.tmp" % os.getpid())
with open(tmp, "w") as f:
    json.dump(rec, f)
os.rename(tmp, os.path.join(out, "%d.json" % os.getpid()))
while True:
    time.sleep(1)
'''

PY = sys.executable


def _q(s):
    import shlex
    return shlex.quote(s)


def render(sc, tmp):
    dump = os.path.join(tmp, 'dump')
    os.makedirs(dump, exist_ok=True)
    worker = os.path.join(tmp, 'worker.py')
    with open(worker, 'w') as f:
        f.write(WORKER)
    lines = ["[circus]", "check_delay = 0.3",
             "endpoint = ipc://%s/ctrl.sock" % tmp,
             "pubsub_endpoint = ipc://%s/pub.sock" % tmp,
             "warmup_delay = %d" % sc.get("global_warmup", 0)]
    if sc.get("pidfile"):
        lines.append("pidfile = %s/circusd.pid" % tmp)
    lines.append("")
    for i, kind in enumerate(sc.get("sockets", [])):
        lines.append("[socket:s%d]" % i)
        if kind == 'unix':
            lines.append("path = %s/s%d.sock" % (tmp, i))
        elif kind == 'unix-dgram':
            lines += ["path = %s/s%d.sock" % (tmp, i), "type = SOCK_DGRAM"]
        else:
            lines += ["host = 127.0.0.1", "port = 0"]
        lines.append("")
    expect = {}
    env_groups = {}
    for w in sc["watchers"]:
        name = w["name"]
        wd = os.path.join(tmp, 'wd-' + name)
        os.makedirs(wd, exist_ok=True)
        args = list(w.get("args", []))
        cmdline = [PY, worker, '--token', sc["token"], '--name', name,
                   '--dump', dump, '--wid', '$(circus.wid)']
        if w.get("stubborn"):
            cmdline.append('--stubborn')
        exp_args = [PY, worker, '--token', sc["token"], '--name', name,
                    '--dump', dump, '--wid', None]
        if w.get("stubborn"):
            exp_args.append('--stubborn')
        for j in w.get("socket_refs", []):
            cmdline += ['--fd%d' % j, '$(circus.sockets.s%d)' % j]
            exp_args += ['--fd%d' % j, ('fd', j)]
        lines.append("[watcher:%s]" % name)
        lines.append("cmd = %s" % ' '.join(
            a if a.startswith('$(') else _q(a) for a in cmdline))
        if args:
            lines.append("args = %s" % ' '.join(_q(a) for a in args))
            exp_args += args
        lines.append("numprocesses = %d" % w.get("numprocesses", 1))
        lines.append("graceful_timeout = %s" % w.get("graceful_timeout", 0.4))
        lines.append("working_dir = %s" % wd)
        if w.get("use_sockets"):
            lines.append("use_sockets = True")
        elif w.get("explicit_false"):
            lines.append("use_sockets = %s" % w["explicit_false"])
        if w.get("stdin_socket") is not None:
            lines.append("stdin_socket = s%d" % w["stdin_socket"])
        if w.get("copy_env"):
            lines.append("copy_env = True")
        lines.append("")
        if w.get("env"):
            # watchers with the same variables share one section whose
            # header lists them (blanks after the commas)
            env_groups.setdefault(json.dumps(w["env"], sort_keys=True),
                                  []).append(name)
        expect[name] = {"argv": exp_args, "cwd": wd,
                        "env": dict(w.get("env") or {}),
                        "copy_env": bool(w.get("copy_env")),
                        "use_sockets": bool(w.get("use_sockets"))}
    for key in sorted(env_groups):
        lines.append("[env:%s]" % ', '.join(env_groups[key]))
        for kk, vv in sorted(json.loads(key).items()):
            lines.append("%s = %s" % (kk, vv))
        lines.append("")
    ini = os.path.join(tmp, 'circus.ini')
    with open(ini, 'w') as f:
        f.write("\n".join(lines))
    return ini, dump, expect


def _wait(cond, timeout, step=0.05):
    t0 = time.time()
    while time.time() - t0 < timeout:
        v = cond()
        if v:
            return v
        time.sleep(step)
    return cond()


def _dumps(dump):
    out = {}
    for n in os.listdir(dump):
        if n.endswith('.json'):
            try:
                with open(os.path.join(dump, n)) as f:
                    out[int(n[:-5])] = json.load(f)
            except Exception:
                pass
    return out


def _alive(pid):
    try:
        with open('/proc/%d/stat' % pid) as f:
            return f.read().split(')')[-1].split()[0] != 'Z'
    except OSError:
        return False


def _token_procs(token):
    out = []
    for d in os.listdir('/proc'):
        if not d.isdigit():
            continue
        try:
            with open('/proc/%s/cmdline' % d, 'rb') as f:
                cl = f.read()
            if token.encode() in cl and _alive(int(d)):
                out.append(int(d))
        except OSError:
            pass
    return out


def run_scenario(sc):
    """-> (violations, inconclusive_reasons, info)"""
    tmp = tempfile.mkdtemp(prefix='vlive-')
    viols, incon, info = [], [], {"generations": 0}
    proc = None
    env = dict(os.environ)
    env["VERIF_DAEMON_ONLY"] = "daemon-1"
    repo = os.environ.get('VERIF_REPO', '/repo')
    env["PYTHONPATH"] = repo + os.pathsep + env.get("PYTHONPATH", "")
    try:
        ini, dump, expect = render(sc, tmp)
        log = open(os.path.join(tmp, 'daemon.log'), 'w')
        proc = subprocess.Popen([PY, '-m', 'circus.circusd', ini], cwd=tmp,
                                env=env, stdout=log, stderr=log)
        total = sum(w.get("numprocesses", 1) for w in sc["watchers"])
        ok = _wait(lambda: len(_dumps(dump)) >= total, 15.0)
        if not ok:
            incon.append('workers did not come up in 15 s')
            return viols, incon, info
        daemon_fds = {}
        for n in os.listdir('/proc/%d/fd' % proc.pid):
            try:
                daemon_fds[n] = os.readlink('/proc/%d/fd/%s' % (proc.pid, n))
            except OSError:
                pass
        sockfd = {}
        from circus.client import CircusClient
        cli = CircusClient(endpoint='ipc://%s/ctrl.sock' % tmp, timeout=5.0)
        try:
            ls = cli.send_message('listsockets')
            for s in ls.get('sockets', []):
                sockfd[s['name']] = s['fd']
        except Exception as e:
            incon.append('listsockets failed: %r' % e)
        seen = set()

        def verify_new():
            ds = _dumps(dump)
            for pid, rec in sorted(ds.items()):
                if pid in seen:
                    continue
                seen.add(pid)
                name = rec["argv"][rec["argv"].index('--name') + 1]
                ex = expect[name]
                want = []
                for a in ex["argv"]:
                    if a is None:
                        want.append(rec["argv"][len(want)])   # the wid
                    elif isinstance(a, tuple):
                        want.append(str(sockfd.get('s%d' % a[1])))
                    else:
                        want.append(a)
                if rec["argv"] != want:
                    viols.append(Violation(
                        'C13:live:argv', 'worker %d of %s exec\'d with %r, '
                        'configured %r' % (pid, name, rec["argv"], want)))
                wid = rec["argv"][rec["argv"].index('--wid') + 1]
                if not wid.isdigit() or int(wid) < 1:
                    viols.append(Violation(
                        'C13:live:wid', 'worker %d got wid %r' % (pid, wid)))
                if os.path.realpath(rec["cwd"]) != os.path.realpath(
                        ex["cwd"]):
                    viols.append(Violation(
                        'C13:live:cwd', 'worker %d of %s runs in %r, '
                        'configured %r' % (pid, name, rec["cwd"], ex["cwd"])))
                wenv = dict(ex["env"])
                if ex["copy_env"]:
                    base = dict(env)
                    base.update(wenv)
                    wenv = base
                got_env = dict(rec["environ"])
                if got_env != wenv:
                    extra = sorted(set(got_env) - set(wenv))
                    missing = sorted(set(wenv) - set(got_env))
                    changed = sorted(x for x in wenv if x in got_env and
                                     got_env[x] != wenv[x])
                    viols.append(Violation(
                        'C13:live:env:%s' % ('copy_env' if ex["copy_env"]
                                             else 'plain'),
                        'worker %d of %s: environment extra %r missing %r '
                        'changed %r' % (pid, name, extra[:5], missing[:5],
                                        changed[:5])))
                # descriptors
                if ex["use_sockets"]:
                    for a in ex["argv"]:
                        if isinstance(a, tuple):
                            fd = sockfd.get('s%d' % a[1])
                            wl = rec["fds"].get(str(fd))
                            dl = daemon_fds.get(str(fd))
                            if wl is None or wl != dl or \
                                    not str(dl).startswith('socket:'):
                                viols.append(Violation(
                                    'C07:live:descriptor-mismatch',
                                    'worker %d of %s: fd %s is %r in the '
                                    'worker, %r in the daemon' % (
                                        pid, name, fd, wl, dl)))
                else:
                    dvals = set(v for kk, v in daemon_fds.items()
                                if kk not in ('0', '1', '2') and
                                (v.startswith('socket:') or
                                 v.startswith('anon_inode:')))
                    leaked = sorted(
                        (kk, v) for kk, v in rec["fds"].items()
                        if kk not in ('0', '1', '2') and v in dvals)
                    if leaked:
                        viols.append(Violation(
                            'C07:live:inherited-daemon-descriptor',
                            'worker %d of %s (no use_sockets) holds daemon '
                            'descriptors %r' % (pid, name, leaked)))
            return ds

        verify_new()
        info["generations"] = 1
        for act in sc.get("actions", []):
            before = set(_dumps(dump))
            if act == 'kill-one':
                victims = [p for p in before if _alive(p)]
                if victims:
                    os.kill(sorted(victims)[0], signal.SIGKILL)
                    ok = _wait(lambda: len(set(_dumps(dump)) - before) >= 1,
                               10.0)
                    if not ok:
                        incon.append('no respawn within 10 s')
            elif act in ('restart', 'reload'):
                old = [p for p in before if _alive(p)]
                t_req = time.time()
                try:
                    # by name: a restart without a name restarts the whole
                    # daemon (new sockets by design)
                    rep = None
                    for _try in range(20):
                        rep = cli.send_message(act, name='w*', waiting=True)
                        if rep.get('status') == 'ok':
                            break
                        # refused: the periodic check holds the slot
                        time.sleep(0.1)
                        t_req = time.time()
                    if rep is None or rep.get('status') != 'ok':
                        incon.append('%s refused: %r' % (act, rep))
                        old = []
                except Exception as e:
                    incon.append('%s failed: %r' % (act, e))
                    old = []
                t_rep = time.time()
                ds0 = _dumps(dump)
                for p in old:
                    rec = ds0.get(p)
                    if rec is None:
                        continue
                    wname = rec["argv"][rec["argv"].index('--name') + 1]
                    wcfg = [w for w in sc["watchers"] if w["name"] == wname][0]
                    gt = wcfg.get("graceful_timeout", 0.4)
                    sigs = []
                    try:
                        with open(os.path.join(dump, '%d.sig' % p)) as f:
                            sigs = [ln.split() for ln in f.read().splitlines()]
                    except OSError:
                        pass
                    if _alive(p):
                        viols.append(Violation(
                            'C02:live:survivor-after-%s' % act,
                            '%s (waiting) was answered, old worker %d of %s '
                            'is still alive' % (act, p, wname)))
                        continue
                    if not sigs:
                        incon.append('no signal log for %d' % p)
                        continue
                    if int(sigs[0][0]) != int(signal.SIGTERM):
                        viols.append(Violation(
                            'C03:live:first-signal',
                            'old worker %d first received signal %s, the '
                            'stop signal is SIGTERM' % (p, sigs[0][0])))
                    t1 = float(sigs[0][1])
                    if wcfg.get("stubborn") and t_rep - t1 < gt - 0.1:
                        viols.append(Violation(
                            'C03:live:sigkill-too-early',
                            'stubborn worker %d of %s got SIGTERM at %.3f and '
                            'was gone by %.3f: %.3f s, graceful_timeout %s'
                            % (p, wname, t1, t_rep, t_rep - t1, gt)))
                    info["episodes"] = info.get("episodes", 0) + 1
                ok = _wait(lambda: len(set(_dumps(dump)) - before) >= total,
                           15.0)
                if not ok:
                    incon.append('%s: new generation incomplete' % act)
            verify_new()
            info["generations"] += 1
        # the daemon must still hold the very same sockets
        for n, v in daemon_fds.items():
            if v.startswith('socket:') and int(n) in sockfd.values():
                try:
                    cur = os.readlink('/proc/%d/fd/%s' % (proc.pid, n))
                except OSError:
                    cur = None
                if cur != v:
                    viols.append(Violation(
                        'C07:live:socket-rebound', 'daemon fd %s was %r, is '
                        'now %r' % (n, v, cur)))
        # ---- shutdown
        trig = sc.get("shutdown", 'quit')
        if sc.get("shutdown_during"):
            try:
                if sc["shutdown_during"] == 'arbiter-restart':
                    cli.send_message('restart')
                else:
                    cli.send_message(sc["shutdown_during"], name='w*')
            except Exception:
                pass
            time.sleep(sc.get("shutdown_delay", 0.0))
        t0 = time.time()
        if trig == 'quit':
            try:
                rep = cli.send_message('quit')
                if rep.get('status') != 'ok':
                    # refused (conflict): not an accepted quit; use a signal
                    info["quit_refused"] = True
                    proc.send_signal(signal.SIGTERM)
            except Exception as e:
                incon.append('quit call failed: %r' % e)
                proc.send_signal(signal.SIGTERM)
        else:
            proc.send_signal(getattr(signal, 'SIG' + trig))
        gts = [w.get("graceful_timeout", 0.4) for w in sc["watchers"]]
        bound = 10 * (max(gts) + sc.get("global_warmup", 0) + 0.5) + 5
        try:
            rc = proc.wait(timeout=bound)
        except subprocess.TimeoutExpired:
            rc = None
        info["shutdown_s"] = time.time() - t0
        if rc is None:
            viols.append(Violation(
                'C08:live:daemon-still-running:%s' % trig,
                '%s sent, %.1f s later circusd (pid %d) is still alive' % (
                    trig, bound, proc.pid)))
        else:
            if rc != 0:
                viols.append(Violation(
                    'C08:live:exit-status',
                    'circusd exited with status %r after %s' % (rc, trig)))
            left = _wait(lambda: not _token_procs(sc["token"]), 3.0)
            if not left:
                viols.append(Violation(
                    'C08:live:worker-survived',
                    'processes %r of this scenario survive the daemon' % (
                        _token_procs(sc["token"]),)))
            for i, kind in enumerate(sc.get("sockets", [])):
                if kind.startswith('unix') and os.path.exists(
                        os.path.join(tmp, 's%d.sock' % i)):
                    viols.append(Violation(
                        'C08:live:unix-socket-file-left',
                        's%d.sock left behind' % i))
            if sc.get("pidfile") and os.path.exists(
                    os.path.join(tmp, 'circusd.pid')):
                viols.append(Violation('C08:live:pidfile-left',
                                       'pid file left behind'))
        try:
            cli.stop()
        except Exception:
            pass
    finally:
        if proc is not None and proc.poll() is None:
            try:
                proc.kill()
                proc.wait(5)
            except Exception:
                pass
        for p in _token_procs(sc.get("token", 'no-such-token-xyz')):
            try:
                os.kill(p, signal.SIGKILL)
            except OSError:
                pass
        shutil.rmtree(tmp, ignore_errors=True)
    return viols, incon, info


def strategy(always_restart=False):
    from hypothesis import strategies as st
    arg = st.text(alphabet="ab Z'\"9-_=/.é$", min_size=1, max_size=6)

    @st.composite
    def sc(draw):
        socks = draw(st.lists(st.sampled_from(
            ['inet', 'unix', 'unix-dgram']), max_size=2))
        ws = []
        for i in range(draw(st.integers(1, 2))):
            w = {"name": "w%d" % i,
                 "numprocesses": draw(st.integers(1, 2)),
                 "graceful_timeout": draw(st.sampled_from([0.3, 0.5])),
                 "stubborn": draw(st.booleans()),
                 "copy_env": draw(st.booleans()),
                 "args": draw(st.lists(arg, max_size=3)),
                 "env": draw(st.dictionaries(
                     st.sampled_from(['VERIF_A', 'VERIF_B', 'HOME']),
                     st.sampled_from(['1', 'two', 'x y', '/p:q']),
                     max_size=2))}
            if socks and draw(st.integers(0, 3)) == 0:
                w["stdin_socket"] = draw(st.integers(0, len(socks) - 1))
            if socks and draw(st.booleans()):
                w["use_sockets"] = True
                w["socket_refs"] = sorted(set(draw(st.lists(
                    st.integers(0, len(socks) - 1), min_size=1,
                    max_size=2))))
            if ws and ws[0].get("env") and draw(st.integers(0, 2)) == 0:
                w["env"] = dict(ws[0]["env"])     # one shared [env:a, b]
            if socks and w.get("use_sockets"):
                pass
            elif draw(st.booleans()):
                # "without use_sockets", said explicitly
                w["explicit_false"] = draw(st.sampled_from(
                    ["False", "false", "0", "no", "off"]))
            ws.append(w)
        return {
            "token": "vtok%d" % draw(st.integers(10 ** 6, 10 ** 7)),
            "sockets": socks, "watchers": ws,
            "pidfile": draw(st.booleans()),
            "global_warmup": draw(st.sampled_from([0, 0, 1])),
            "actions": (['restart'] if always_restart else []) + draw(
                st.lists(st.sampled_from(['kill-one', 'restart', 'reload']),
                         max_size=2)),
            "shutdown": draw(st.sampled_from(['quit', 'TERM', 'INT',
                                              'QUIT'])),
            "shutdown_during": draw(st.sampled_from(
                [None, None, 'restart', 'reload', 'arbiter-restart'])),
            "shutdown_delay": draw(st.sampled_from([0.0, 0.05, 0.3]))}
    return sc()


def execute_live(case, prefixes):
    """Common execute() body for the checks that own a live shard.

    The live tier runs on the wall clock, under whatever load the machine
    has: an observation is only reported when it reproduces (the same
    signature in at least 2 of 3 runs of the scenario); anything else is
    counted as inconclusive and logged to .work/live-unconfirmed.jsonl."""
    viols, incon, info = run_scenario(case)
    mine = [v for v in viols if v["signature"].startswith(prefixes)]
    classes = ['live']
    if mine:
        votes = {}
        for v in mine:
            votes[v["signature"]] = 1
        for k_ in range(2):
            c2 = dict(case, token='%s%d' % (case["token"], k_))
            v2, _i2, _n2 = run_scenario(c2)
            for sig in set(x["signature"] for x in v2):
                if sig in votes:
                    votes[sig] += 1
        confirmed = [v for v in mine if votes[v["signature"]] >= 2]
        if len(confirmed) < len(mine):
            classes.append('live-unconfirmed')
            try:
                root = os.path.dirname(os.path.dirname(
                    os.path.abspath(__file__)))
                os.makedirs(os.path.join(root, '.work'), exist_ok=True)
                with open(os.path.join(root, '.work',
                                       'live-unconfirmed.jsonl'), 'a') as f:
                    f.write(json.dumps({
                        "case": case, "votes": votes,
                        "messages": [v["message"] for v in mine]}) + "\n")
            except OSError:
                pass
        mine = confirmed
    if incon:
        classes.append('live-inconclusive')
    if info.get("generations", 0) >= 2:
        classes.append('live-several-generations')
    if case.get("shutdown_during"):
        classes.append('live-shutdown-during-operation')
    if info.get("episodes"):
        classes.append('live-termination-episode')
    return mine, True, classes
