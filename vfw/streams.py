"""Stream classes as a user of circus may write them.

The documentation asks for a callable class only (``__init__(**kwargs)`` and
``__call__(data)``); ``close`` is optional.
"""


class NoCloseStream(object):
    """The smallest stream the documentation allows: no close()."""

    def __init__(self, **kwargs):
        self.records = []

    def __call__(self, data):
        self.records.append(data)
