"""C06 - exactly one well-formed reply bearing the request's id (daemon);
the client returns only the reply bearing its call id (client).

(a) daemon: generated frames delivered to the real Controller.handle_message
    of a SimWorld daemon; the oracle counts frames on the recording ROUTER
    stream per request.
(b) client: CircusClient.call / AsyncCircusClient.call over scripted fake
    sockets.
"""
import json
import math

from vfw.history import History
from vfw.runner import Stats, Violation, hyp_search

PROPERTY = 'C06'
LEVEL = 'exploration'
RULE = ("daemon: cases are 1-4 control messages from four families (raw "
        "bytes; arbitrary JSON values; envelopes whose id/command/"
        "properties/msg_type are each absent, null, ill-typed or valid; every "
        "registered command with properties from valid and invalid pools, "
        "waiting and cast on/off) delivered to a daemon with active, stopped "
        "and hook-guarded watchers and workers that may fail to exec; after "
        "each message the daemon is run to quiescence and the replies "
        "addressed to that message are counted and parsed, then a numwatchers "
        "probe is sent.  overlap: one slow request (workers ignore the stop "
        "signal) followed by 1-4 requests sent while it is in flight, every "
        "one of which must get exactly one reply with its id.  client: scripts of deliveries (matching / stale / "
        "foreign-id / duplicate replies, empty polls, batches) around one "
        "call().  Non-trivial = the message is not a valid request that "
        "succeeds synchronously (invalid, refused, failing asynchronously, "
        "waiting) / the script delivers a non-matching reply before the "
        "matching one; distinct by structural skeleton (types of the envelope "
        "fields + command + property keys/types) resp. script shape.")
ASSUMPTIONS = [
    "daemon side: the ROUTER stream and PUB socket are recording fakes; "
    "frames enter through Controller.handle_message exactly as ZMQStream "
    "delivers them",
    "a message is a cast iff it is a JSON object whose msg_type is \"cast\"",
    "status of `status name=...` carries the watcher status (documented)",
    "client side: only object-valued replies are scripted (the daemon sends "
    "nothing else)",
]

TERMINAL = ('quit',)
COMMANDS = ['add', 'decr', 'dstats', 'get', 'globaloptions', 'incr',
            'kill', 'list', 'listen', 'listsockets', 'numprocesses',
            'numwatchers', 'options', 'quit', 'reload', 'reloadconfig',
            'restart', 'rm', 'set', 'signal', 'start', 'stats', 'status',
            'stop', 'ipython']

BASE_WATCHERS = [
    {"name": "a", "numprocesses": 2, "graceful_timeout": 0.3},
    {"name": "b", "numprocesses": 1, "autostart": False,
     "graceful_timeout": 0.2},
    {"name": "h", "numprocesses": 1, "autostart": False,
     "graceful_timeout": 0.2,
     "hooks": {"after_start": ["raise", False]}},
    {"name": "g", "numprocesses": 1, "graceful_timeout": 0.1,
     "hooks": {"before_signal": ["raise", False],
               "before_stop": ["raise", False]}},
]


def _type(v):
    if v is None:
        return 'null'
    if isinstance(v, bool):
        return 'bool'
    if isinstance(v, int):
        return 'int'
    if isinstance(v, float):
        return 'float'
    if isinstance(v, str):
        return 'str'
    if isinstance(v, list):
        return 'list'
    return 'object'


def skeleton(msg):
    """Structural class of a message (used for distinctness + signatures)."""
    if msg["kind"] == 'raw':
        return 'raw'
    v = msg["value"]
    if not isinstance(v, dict):
        return 'json-' + _type(v)
    parts = []
    for f in ('id', 'command', 'properties', 'msg_type'):
        parts.append('%s=%s' % (f, _type(v[f]) if f in v else 'absent'))
    cmd = v.get('command')
    if isinstance(cmd, str):
        parts.append('cmd:' + (cmd.lower() if cmd.lower() in COMMANDS
                               else '?'))
    props = v.get('properties')
    if isinstance(props, dict):
        parts.append('props:' + ','.join(
            '%s:%s' % (k, _type(props[k])) for k in sorted(props)))
    return ' '.join(parts)


def _resolve(v, h):
    """'@a0' -> first live pid of watcher a (placeholders keep the case a
    pure value while still addressing real pids)."""
    if isinstance(v, str) and len(v) == 3 and v[0] == '@' and \
            v[1] in 'abhg' and v[2].isdigit():
        live = h.world.live(v[1])
        idx = int(v[2])
        return live[idx] if idx < len(live) else 99999
    if isinstance(v, list):
        return [_resolve(x, h) for x in v]
    if isinstance(v, dict):
        return dict((k, _resolve(x, h)) for k, x in v.items())
    return v


class _OpaqueStream(object):
    """A stream given as an object (library use): callable, and not
    representable in JSON - `options` / `get` on its watcher must still be
    answered by one well-formed (error) reply."""
    def __call__(self, data):
        pass

    def close(self):
        pass


def execute_daemon(case):
    hc = {"watchers": [dict(w) for w in BASE_WATCHERS] + [
        {"name": "o", "numprocesses": 1, "autostart": False,
         "graceful_timeout": 0.1,
         "stdout_stream": {"stream": _OpaqueStream()}}], "ops": [],
          "tape": case.get("tape") or []}
    h = History(hc)
    w = h.world
    viols = []
    classes = []
    nontrivial = False
    try:
        h.start()
        for msg in case["messages"]:
            if w.dead:
                break
            if msg["kind"] == 'raw':
                payload = msg["bytes"].encode('latin-1')
                value = _parse(payload)
            else:
                value = _resolve(msg["value"], h)
                payload = json.dumps(value).encode()
            sk = skeleton(msg)
            is_obj = isinstance(value, dict)
            cast = is_obj and value.get('msg_type') == 'cast'
            expect_id = value.get('id') if is_obj else None
            cmd = value.get('command') if is_obj else None
            props = value.get('properties', {}) if is_obj else None
            nreplies_before = len(w.replies)
            req = w.send_raw(payload)
            sync = req.sync_replies
            ok = w.drain(600.0)
            tag = sk
            if req.escaped is not None:
                tag += ' escaped=' + type(req.escaped).__name__
            if w.blocked:
                viols.append(Violation(
                    'C06:blocked:%s' % w.blocked_where,
                    'event loop blocked while serving %r' % payload[:120]))
                break
            if not ok:
                viols.append(Violation('C06:no-quiescence:' + sk,
                                       'daemon not quiescent after %r'
                                       % payload[:120]))
                break
            n = len(req.replies)
            foreign = [c for (_, c, _p) in w.replies[nreplies_before:]
                       if c != req.cid]
            if foreign:
                viols.append(Violation(
                    'C06:foreign-reply:' + sk, 'reply frames addressed to '
                    'another peer %r while serving %r' % (
                        foreign[:2], payload[:120])))
            want = 0 if cast else 1
            waiting = (isinstance(props, dict) and
                       bool(props.get('waiting', False)))
            if n != want:
                kind = 'no-reply' if n == 0 else (
                    'reply-to-cast' if cast else 'multiple-replies')
                sig = 'C06:%s:%s' % (kind, _sigclass(value, req, waiting, w))
                viols.append(Violation(
                    sig, '%d replies (expected %d) to %r; escaped=%r; '
                    'loop errors=%r' % (n, want, payload[:160], req.escaped,
                                        [e["exc"] for e in
                                         w.loop_errors[-2:]])))
            for (_t, rp) in req.replies:
                try:
                    rep = json.loads(rp)
                except Exception:
                    rep = None
                if not isinstance(rep, dict):
                    viols.append(Violation(
                        'C06:reply-not-object:' + sk,
                        'reply %r is not a JSON object' % rp[:120]))
                    continue
                if 'id' not in rep or not _same(rep['id'], expect_id):
                    viols.append(Violation(
                        'C06:id-mismatch:' + sk, 'reply id %r != request id '
                        '%r for %r' % (rep.get('id'), expect_id,
                                       payload[:120])))
                st = rep.get('status')
                status_cmd = (isinstance(cmd, str) and
                              cmd.lower() == 'status' and
                              isinstance(props, dict) and 'name' in props)
                if st not in ('ok', 'error') and not (
                        status_cmd and st in ('active', 'stopped',
                                              'starting', 'stopping')):
                    viols.append(Violation(
                        'C06:bad-status:' + sk, 'reply status %r for %r' % (
                            st, payload[:120])))
            if w.framing_errors:
                fe = w.framing_errors[0]
                viols.append(Violation(
                    'C06:malformed-multipart-reply:' + sk,
                    'the reply to %r was not sent as [routing id, one JSON '
                    'frame]: frames %r' % (payload[:120], fe["frames"])))
                del w.framing_errors[:]
            rep0 = req.reply()
            plain_ok = (rep0 is not None and rep0.get('status') == 'ok'
                        and sync == 1 and not waiting)
            if not plain_ok:
                nontrivial = True
                classes.append('nontrivial-message')
            if req.escaped is not None:
                classes.append('escaped-exception')
            if n == 1 and sync == 0:
                classes.append('deferred-reply')
            if rep0 is not None and rep0.get('status') == 'error':
                classes.append('error-reply')
            classes.append('family-' + msg["kind"])
            terminal = (isinstance(cmd, str) and
                        (cmd.lower() in TERMINAL or
                         (cmd.lower() == 'restart' and
                          isinstance(props, dict) and 'name' not in props))
                        and rep0 is not None and rep0.get('status') == 'ok')
            if terminal:
                classes.append('terminal')
                break
            if w.ctrl.stream.closed:
                break
            # the daemon must still serve the next request - a state-changing
            # one too (nothing is in flight: the slot must be free)
            px = w.request('set', {"name": "b", "options": {}})
            rx = px.reply()
            if rx is None or 'arbiter is already running' in str(
                    rx.get('reason')):
                viols.append(Violation(
                    'C06:next-request-refused:' + sk,
                    'after %r (daemon quiescent) an exclusive request was '
                    'answered %r' % (payload[:120], rx)))
                break
            pr = w.request('numwatchers', {})
            rp = pr.reply()
            if pr.sync_replies != 1 or rp is None or \
                    rp.get('status') != 'ok':
                viols.append(Violation(
                    'C06:probe-failed:' + sk, 'numwatchers after %r got %r '
                    '(sync replies %d, escaped %r)' % (
                        payload[:120], rp, pr.sync_replies, pr.escaped)))
                break
    finally:
        h.close()
    return viols, nontrivial, sorted(set(classes))


def _same(a, b):
    # structural equality that treats NaN as equal to itself, also nested
    return json.dumps(a, sort_keys=True) == json.dumps(b, sort_keys=True)


def _parse(payload):
    try:
        return json.loads(payload.strip())
    except Exception:
        return _NotJson


class _NotJsonT(object):
    pass


_NotJson = _NotJsonT()


def _sigclass(value, req, waiting, w):
    """Narrow signature: what kind of message and how the failure surfaced."""
    if value is _NotJson:
        base = 'raw-not-json' if req.raw.strip() else 'empty-frame'
    elif not isinstance(value, dict):
        base = 'json-' + _type(value)
    else:
        cmd = value.get('command')
        props = value.get('properties', {})
        if not isinstance(cmd, str):
            base = 'command-' + (_type(cmd) if 'command' in value
                                 else 'absent')
        elif not isinstance(props, dict):
            base = 'properties-' + _type(props)
        else:
            base = 'cmd=%s' % (cmd.lower() if cmd.lower() in COMMANDS
                               else '?')
            if waiting:
                base += ':waiting'
    if req.escaped is not None:
        base += ':escaped=' + type(req.escaped).__name__
    elif w.loop_errors:
        base += ':loop-error=' + str(w.loop_errors[-1]["type"])
    return base


# ---------------------------------------------------------------------------
# generators (daemon side)
# ---------------------------------------------------------------------------

NAMES = ["a", "b", "h", "g", "o", "o", "A", "zz", "", "*", "a*", 7, None, ["a"],
         {"x": 1}]
POOLS = {
    "name": NAMES,
    "waiting": [True, True, False, 1, 0, "yes", None],
    "nb": [1, 2, 0, -1, "x", None, 1.5, [1], 3],
    "options": [{"numprocesses": 2}, {"numprocesses": "x"},
                {"graceful_timeout": 0.2}, {"bogus": 1}, {"stop_signal": 9},
                {"stop_signal": "TERM"}, {"env": {"A": "b"}}, {"env": "x"},
                {"hooks": {"before_start": "os.getcwd"}},
                {"hooks.before_start": "nonexistent_mod_xyz.fn"},
                {"stdout_stream": {"class": "QueueStream"}},
                {"stdout_stream": {"class": "bogus_mod_xyz.Cls"}},
                "x", None, [], {}, {"singleton": True}, {"max_retry": 1},
                {"rlimit_nofile": 100}, {"rlimit_bogus": 1},
                {"uid": "no-such-user-xyz"}, {"warmup_delay": "x"},
                {"numprocesses": 3, "graceful_timeout": 0.1},
                {"max_age": 1}, {"send_hup": True}, {"shell": True},
                {"cmd": "other --flag"}, {"args": ["x", 1]},
                {"working_dir": "/nonexistent"}],
    "cmd": ["worker", "worker $(circus.wid)", "", 5, None],
    "args": ["a b", ["x"], 5, None, "'unbalanced"],
    "start": [True, False, "x"],
    "nostop": [True, False, None],
    "signum": [15, "TERM", "sigusr1", "bogus", None, 9, 0, -1, 1000, 1.5,
               [], "SIGRTMIN+1", 2],
    "pid": ["@a0", "@a1", 99999, "12", "x", None, -1],
    "childpid": [99999, "x", None, 0],
    "children": [True, False, "x", None],
    "recursive": [True, False, "x"],
    "graceful": [True, False, None, "x"],
    "sequential": [True, False, "x"],
    "match": ["simple", "glob", "regex", "bogus", None, 5],
    "keys": [["numprocesses"], ["bogus"], "x", None, 5, []],
    "process": ["@a0", 99999, "x", None],
    "extended": [True, False],
    "option": ["endpoint", "bogus", 5, None],
    "graceful_timeout": [0.1, "x", None, -1, 0],
}
CMD_KEYS = {
    'add': ['name', 'cmd', 'args', 'options', 'start', 'waiting'],
    'decr': ['name', 'nb', 'waiting'],
    'incr': ['name', 'nb', 'waiting'],
    'dstats': [], 'ipython': [], 'listsockets': [], 'numwatchers': [],
    'listen': ['name'],
    'get': ['name', 'keys'],
    'globaloptions': ['option'],
    'kill': ['name', 'pid', 'signum', 'graceful_timeout', 'waiting'],
    'list': ['name'], 'numprocesses': ['name'], 'options': ['name'],
    'status': ['name'],
    'quit': ['waiting'],
    'reload': ['name', 'graceful', 'sequential', 'waiting'],
    'reloadconfig': ['waiting'],
    'restart': ['name', 'match', 'waiting'],
    'rm': ['name', 'nostop', 'waiting'],
    'set': ['name', 'options', 'waiting'],
    'signal': ['name', 'signum', 'pid', 'childpid', 'children', 'recursive'],
    'start': ['name', 'match', 'waiting'],
    'stop': ['name', 'match', 'waiting'],
    'stats': ['name', 'process', 'extended'],
}


def _daemon_strategy():
    from hypothesis import strategies as st

    scalars = st.one_of(st.none(), st.booleans(), st.integers(-5, 5),
                        st.floats(allow_nan=True, allow_infinity=True,
                                  width=32),
                        st.text(max_size=6))
    jsonv = st.recursive(
        scalars, lambda c: st.one_of(
            st.lists(c, max_size=3),
            st.dictionaries(st.sampled_from(
                ['id', 'command', 'properties', 'msg_type', 'name', 'x']),
                c, max_size=4)), max_leaves=6)

    raw = st.one_of(
        st.binary(max_size=24).map(lambda b: b.decode('latin-1')),
        st.sampled_from(['[' * 2000, '{"a":' * 1500, '[' * 30 + ']' * 30,
                         '', ' ', '\n', '{', '[1', '{"id": 1', 'null ',
                         '  {"command": "list"}  ', '\x00', '"',
                         '{"command": "list", "id": "q"} trailing']),
        st.text(alphabet='{}[]":, \n\tnulltruefalse0123456789abc\\',
                max_size=20))

    absent = object()

    def envelope():
        ids = st.sampled_from([absent, None, 5, "x", [1], {"a": 1}, 1.5,
                               True, ""])
        cmds = st.sampled_from([absent, None, 5, [], {}, "list", "LIST",
                                "nope", "", "stop", "numwatchers", True])
        props = st.sampled_from([absent, None, [], "s", 5, {},
                                 {"name": "a"}, {"name": "zz"}, True,
                                 ["name"], "name"])
        mts = st.sampled_from([absent, absent, None, "cast", "dealer", 5,
                               "CAST"])

        def build(t):
            d = {}
            for k, v in zip(('id', 'command', 'properties', 'msg_type'), t):
                if v is not absent:
                    d[k] = v
            return d
        return st.tuples(ids, cmds, props, mts).map(build)

    @st.composite
    def command_msg(draw):
        cmd = draw(st.sampled_from(COMMANDS))
        if draw(st.integers(0, 9)) == 0:
            cmd = cmd.upper()
        keys = CMD_KEYS.get(cmd.lower(), [])
        props = {}
        for k in keys:
            r = draw(st.integers(0, 9))
            if r < 6 or (k == 'name' and r < 8):
                pool = POOLS[k]
                # bias towards the first (valid) entries
                if draw(st.integers(0, 2)) > 0:
                    props[k] = draw(st.sampled_from(pool[:4]))
                else:
                    props[k] = draw(st.sampled_from(pool))
        if draw(st.integers(0, 9)) == 0:
            k = draw(st.sampled_from(sorted(POOLS)))
            props[k] = draw(st.sampled_from(POOLS[k]))
        d = {"command": cmd, "properties": props}
        r = draw(st.integers(0, 11))
        if r > 0:
            d["id"] = draw(st.sampled_from(["i1", "i2", 7, None]))
        if draw(st.integers(0, 7)) == 0:
            d["msg_type"] = "cast"
        return d

    def wrap(kind):
        if kind == 'raw':
            return raw.map(lambda s: {"kind": "raw", "bytes": s})
        src = {'json': jsonv, 'envelope': envelope(),
               'command': command_msg()}[kind]
        return src.map(lambda v: {"kind": kind, "value": v})

    msg = st.one_of(wrap('raw'), wrap('json'), wrap('envelope'),
                    wrap('command'), wrap('command'), wrap('command'))
    beh = st.sampled_from([
        {"react": "die", "delay": 0.0}, {"react": "die", "delay": 0.0},
        {"react": "ignore"}, {"react": "die", "delay": 0.05},
        {"react": "die", "delay": 0.0, "exec_fail": True},
        {"react": "die", "delay": 0.0, "klat": 0.002}])
    return st.fixed_dictionaries({
        "messages": st.lists(msg, min_size=1, max_size=4),
        "tape": st.lists(beh, max_size=8)})


# ---------------------------------------------------------------------------
# client side
# ---------------------------------------------------------------------------

class _ScriptedSocket(object):
    """DEALER stand-in: records what is sent, delivers scripted batches."""

    def __init__(self, script):
        self.script = list(script)
        self.sent = []
        self.queue = []
        self.call_id = None

    def setsockopt(self, *a):
        pass

    def connect(self, *a):
        pass

    def send(self, data, *a, **kw):
        self.sent.append(data)
        if isinstance(data, bytes):
            data = data.decode()
        self.call_id = json.loads(data).get('id')

    def close(self):
        pass

    def recv(self):
        return self.queue.pop(0)


def _materialise(entry, call_id):
    kind = entry[0]
    if kind == 'match':
        return json.dumps({"id": call_id, "status": "ok", "n": entry[1]})
    if kind == 'foreign':
        d = {"status": "ok", "n": entry[2]}
        if entry[1] != '<absent>':
            d["id"] = entry[1]
        return json.dumps(d)
    if kind == 'near':       # id differing from the call id by one char
        return json.dumps({"id": call_id[:-1] + ('0' if call_id[-1] != '0'
                                                 else '1'),
                           "status": "ok", "n": entry[1]})
    raise ValueError(entry)


def _expected_client(script):
    """First delivered matching reply, or timeout if none arrives before an
    empty poll / the end of the script."""
    for step in script:
        if step[0] == 'empty':
            return ('timeout', None)
        for e in step[1]:
            if e[0] == 'match':
                return ('return', e[1])
    return ('timeout', None)


def execute_client_sync(case):
    import circus.client as cc
    from circus.exc import CallError
    script = case["script"]
    sock = _ScriptedSocket(script)

    class Ctx(object):
        def socket(self, kind):
            return sock

    class Poller(object):
        def __init__(self):
            self.steps = list(script)

        def register(self, *a):
            pass

        def poll(self, timeout):
            if not self.steps:
                return []
            step = self.steps.pop(0)
            if step[0] == 'empty':
                return []
            # one recv per readiness report: deliver the batch one by one
            for e in step[1]:
                sock.queue.append(_materialise(e, sock.call_id))
            self.steps = [['one']] * (len(step[1]) - 1) + self.steps
            return [(sock, 1)]

    class OnePoller(Poller):
        def poll(self, timeout):
            if self.steps and self.steps[0] == ['one']:
                self.steps.pop(0)
                return [(sock, 1)]
            return Poller.poll(self, timeout)

    old = cc.zmq.Poller
    viols = []
    try:
        cc.zmq.Poller = OnePoller
        client = cc.CircusClient(context=Ctx(), endpoint='tcp://x:1',
                                 timeout=0.01)
        try:
            res = client.call({"command": "list", "properties": {}})
            got = ('return', res.get('n'), res.get('id'))
        except CallError as e:
            got = ('timeout', None, None)
    finally:
        cc.zmq.Poller = old
    want = _expected_client(script)
    if got[0] != want[0] or got[1] != want[1]:
        viols.append(Violation(
            'C06:client-sync:%s-instead-of-%s' % (got[0], want[0]),
            'CircusClient.call %s %r (id %r) but the script implies %s %r '
            '(call id %r)' % (got[0], got[1], got[2], want[0], want[1],
                              sock.call_id)))
    return viols


def execute_client_async(case):
    """AsyncCircusClient over a scripted stream on a virtual-time loop."""
    import asyncio
    import tornado.ioloop
    import circus.client as cc
    from vfw.simloop import VirtualLoop
    script = case["script"]
    loop = VirtualLoop()
    asyncio.set_event_loop(loop)
    ioloop = tornado.ioloop.IOLoop.current()
    ioloop.time = loop.time
    sock = _ScriptedSocket(script)
    viols = []

    class Ctx(object):
        def socket(self, kind):
            return sock

    class Stream(object):
        def __init__(self, s, l):
            self.recv_cb = None

        def send(self, data, callback=None, **kw):
            sock.send(data)
            if callback is not None:
                ioloop.add_callback(callback, data, None)

        def on_recv(self, cb):
            self.recv_cb = cb

        def stop_on_recv(self):
            self.recv_cb = None

        def close(self):
            pass

    old = cc.ZMQStream
    try:
        cc.ZMQStream = Stream
        client = cc.AsyncCircusClient(context=Ctx(), endpoint='tcp://x:1',
                                      timeout=0.05)
        fut = loop.call_in_loop(
            lambda: client.call({"command": "list", "properties": {}}))
        loop.run_until_idle()
        timed_out_at = None
        for step in script:
            if fut.done():
                break
            if step[0] == 'empty':
                # nothing arrives for longer than the client's timeout
                loop.set_time(loop.time() + 1.0)
                loop.run_until_idle()
                while loop._next_timer() is not None and not fut.done():
                    loop.set_time(loop._next_timer())
                    loop.run_until_idle()
                timed_out_at = loop.time()
                break
            batch = [_materialise(e, sock.call_id).encode()
                     for e in step[1]]
            cb = client.stream.recv_cb
            if cb is not None:
                loop.call_in_loop(cb, batch)
            loop.run_until_idle()
        else:
            if not fut.done():
                loop.set_time(loop.time() + 1.0)
                loop.run_until_idle()
                while loop._next_timer() is not None and not fut.done():
                    loop.set_time(loop._next_timer())
                    loop.run_until_idle()
        want = _expected_client(script)
        if fut.done():
            exc = fut.exception()
            if exc is not None:
                got = ('timeout' if type(exc).__name__ == 'CallError'
                       else 'raised-' + type(exc).__name__, None)
            else:
                got = ('return', fut.result().get('n'))
        else:
            got = ('pending-forever', None)
        if got != want:
            viols.append(Violation(
                'C06:client-async:%s-instead-of-%s' % (got[0], want[0]),
                'AsyncCircusClient.call: %s %r but the script implies %s %r'
                % (got[0], got[1], want[0], want[1])))
    finally:
        cc.ZMQStream = old
        try:
            ioloop.close(all_fds=False)
        except Exception:
            loop.close()
        asyncio.set_event_loop(None)
    return viols


def _client_strategy():
    from hypothesis import strategies as st
    entry = st.one_of(
        st.tuples(st.just('match'), st.integers(0, 99)).map(list),
        st.tuples(st.just('foreign'),
                  st.sampled_from(['<absent>', None, 7, 'other', '', 0,
                                   'deadbeef' * 4]),
                  st.integers(100, 199)).map(list),
        st.tuples(st.just('foreign'),
                  st.sampled_from(['<absent>', None, 7, 'other']),
                  st.integers(100, 199)).map(list),
        st.tuples(st.just('near'), st.integers(200, 299)).map(list))
    step = st.one_of(
        st.tuples(st.just('batch'),
                  st.lists(entry, min_size=1, max_size=4)).map(list),
        st.tuples(st.just('batch'),
                  st.lists(entry, min_size=1, max_size=2)).map(list),
        st.just(['empty']))
    return st.fixed_dictionaries({
        "script": st.lists(step, min_size=0, max_size=6),
        "flavour": st.sampled_from(['sync', 'async'])})


def execute_client(case):
    if case["flavour"] == 'sync':
        viols = execute_client_sync(case)
    else:
        viols = execute_client_async(case)
    want = _expected_client(case["script"])
    seen_other = False
    nontrivial = False
    for step in case["script"]:
        if step[0] == 'empty':
            break
        for e in step[1]:
            if e[0] == 'match':
                nontrivial = nontrivial or seen_other
                break
            seen_other = True
        else:
            continue
        break
    if want[0] == 'timeout' and seen_other:
        nontrivial = True
    classes = ['client-' + case["flavour"], 'client-want-' + want[0]]
    return viols, nontrivial, classes


OVERLAP_FIRST = [
    ("quit", {}), ("quit", {"waiting": True}),
    ("stop", {"name": "a", "match": "simple", "waiting": True}),
    ("stop", {}), ("stop", {"waiting": True}),
    ("restart", {"name": "a", "match": "simple", "waiting": True}),
    ("restart", {}), ("restart", {"waiting": True}),
    ("reload", {"name": "a", "waiting": True}),
    ("rm", {"name": "a", "waiting": True}),
    ("decr", {"name": "a", "waiting": True}),
]
OVERLAP_NEXT = [
    ("quit", {}), ("quit", {"waiting": True}), ("stop", {}),
    ("stop", {"name": "g", "match": "simple", "waiting": True}),
    ("start", {}), ("restart", {}), ("restart", {"name": "a"}),
    ("reload", {}), ("incr", {"name": "a"}), ("list", {}),
    ("status", {"name": "a"}), ("numwatchers", {}), ("nosuch", {}),
    ("set", {"name": "a", "options": {"numprocesses": 3}}),
    ("reloadconfig", {}), ("rm", {"name": "g"}),
    ("add", {"name": "n1", "cmd": "x"}), ("stats", {}),
]


def execute_overlap(case):
    """A slow operation (workers ignore the stop signal) is in flight while
    further requests arrive: each request that reached the controller before
    the endpoint was closed gets exactly one well-formed reply with its id,
    none if it was a cast."""
    hc = {"watchers": [dict(w) for w in BASE_WATCHERS], "ops": [],
          "tape": [], "default_beh": {"react": "ignore"}}
    h = History(hc)
    w = h.world
    viols = []
    classes = ['family-overlap']
    try:
        h.start()
        sent = []
        msgs = [case["first"]] + list(case["messages"])
        for i, m in enumerate(msgs):
            if w.dead or w.exited or w.ctrl.stream.closed:
                break
            value = {"id": "o%d" % i, "command": m[0],
                     "properties": dict(m[1])}
            if len(m) > 2 and m[2]:
                value["msg_type"] = "cast"
            busy = not w.quiescent()
            req = w.send_raw(json.dumps(value).encode())
            sent.append((req, value, busy))
            if busy and i > 0:
                classes.append('request-while-busy')
            w.step(case["gaps"][i % len(case["gaps"])])
        w.drain(600.0)
        if w.blocked:
            viols.append(Violation('C06:blocked:%s' % w.blocked_where,
                                   'event loop blocked'))
        for req, value, busy in sent:
            want = 0 if value.get("msg_type") == "cast" else 1
            n = len(req.replies)
            tag = '%s%s:%s' % (value["command"],
                               ':waiting' if value["properties"].get(
                                   "waiting") else '',
                               'busy' if busy else 'idle')
            if n != want:
                viols.append(Violation(
                    'C06:overlap:%s:%s' % (
                        'no-reply' if n == 0 else 'multiple-replies'
                        if want else 'reply-to-cast', tag),
                    '%d replies (expected %d) to %r sent while another '
                    'operation was %s; first request %r' % (
                        n, want, value, 'in flight' if busy else 'not in '
                        'flight', msgs[0])))
            for (_t, rp) in req.replies:
                try:
                    rep = json.loads(rp)
                except Exception:
                    rep = None
                if not isinstance(rep, dict) or rep.get("id") != value["id"]:
                    viols.append(Violation(
                        'C06:overlap:bad-reply:' + tag,
                        'reply %r to %r' % (rp[:120], value)))
        if w.framing_errors:
            viols.append(Violation(
                'C06:overlap:malformed-multipart-reply',
                'frames %r' % (w.framing_errors[0]["frames"],)))
    finally:
        h.close()
    seen = set()
    out = []
    for v in viols:
        if v["signature"] not in seen:
            seen.add(v["signature"])
            out.append(v)
    return out, 'request-while-busy' in classes, sorted(set(classes))


def _overlap_strategy():
    from hypothesis import strategies as st
    nxt = st.tuples(st.sampled_from(OVERLAP_NEXT),
                    st.integers(0, 9)).map(
        lambda t: [t[0][0], t[0][1], t[1] == 0])
    return st.fixed_dictionaries({
        "overlap": st.just(True),
        "first": st.sampled_from(OVERLAP_FIRST).map(list),
        "messages": st.lists(nxt, min_size=1, max_size=4),
        "gaps": st.lists(st.integers(0, 3), min_size=1, max_size=4)})


def execute(case):
    if "script" in case:
        return execute_client(case)
    if case.get("overlap"):
        return execute_overlap(case)
    return execute_daemon(case)


def replay(case):
    return execute(case)[0]


def _daemon_distinct(case):
    return [skeleton(m) for m in case["messages"]]


def plan(tier, seed):
    n = 800 if tier == "quick" else 12000
    nc = 1500 if tier == 'quick' else 20000
    specs = [{"kind": "daemon", "seed": seed * 100 + i, "n": n}
             for i in range(13)]
    specs += [{"kind": "client", "seed": seed * 100 + 50 + i, "n": nc}
              for i in range(3)]
    specs += [{"kind": "overlap", "seed": seed * 100 + 70 + i, "n": n}
              for i in range(2)]
    runs = 1500 if tier == 'quick' else 60000
    specs += [{"kind": "atheris", "mode": "bytes", "seed": seed, "runs": runs,
               "corpus": "empty"},
              {"kind": "atheris", "mode": "bytes", "seed": seed + 1,
               "runs": runs, "corpus": "seeded"},
              {"kind": "atheris", "mode": "hyp", "seed": seed + 2,
               "runs": runs // 2, "corpus": "empty"}]
    return specs


class _SkStats(Stats):
    """Distinctness by structural skeleton rather than by whole case."""

    def record(self, case, nontrivial, classes=()):
        self.evaluations += 1
        for c in classes:
            self.count(c)
        if nontrivial:
            if "messages" in case:
                key = {"sk": _daemon_distinct(case)}
            else:
                key = {"shape": [[s[0]] + [e[0] if e[0] != 'foreign'
                                           else 'foreign:%r' % (e[1],)
                                           for e in (s[1] if len(s) > 1
                                                     else [])]
                                 for s in case["script"]],
                       "f": case["flavour"]}
            from vfw.runner import case_hash
            hsh = case_hash(key)
            if hsh not in self.nontrivial:
                self.nontrivial.add(hsh)
                if len(self.samples) < self.max_samples:
                    self.samples.append(case)


def _run_atheris(spec):
    """Coverage-guided campaign in a subprocess (vfw/fuzz_c06.py)."""
    import os
    import re
    import shutil
    import subprocess
    import sys
    root = os.path.dirname(os.path.dirname(os.path.abspath(__file__)))
    probe = subprocess.run(
        [sys.executable, '-c', 'import sys; sys.path.insert(0, %r); '
         'import atheris' % os.path.join(root, '.deps')],
        stdout=subprocess.PIPE, stderr=subprocess.PIPE)
    if probe.returncode != 0:
        # setup_cmd installs atheris into .deps; without it the campaign is
        # skipped (counted), the Hypothesis shards still decide the property
        return {"evaluations": 0, "nontrivial": [], "samples": [],
                "known_hits": {}, "violations": [],
                "counters": {"atheris-unavailable": 1}}
    out = os.path.join(root, '.work', 'atheris-c06-%s-%s-%d' % (
        spec["mode"], spec["corpus"], spec["seed"]))
    shutil.rmtree(out, ignore_errors=True)
    corpus = os.path.join(out, 'corpus')
    os.makedirs(corpus)
    if spec["corpus"] == 'seeded' and spec["mode"] == 'bytes':
        # a few small valid inputs: frames circusctl's message() builds
        for i, m in enumerate([b'\x00' + b'{"command": "list"}',
                               b'\x01\x05\x01\x00', b'\x01\x12\x02\x00\x00',
                               b'\x02\x01\x17\x03\x0f\x00']):
            with open(os.path.join(corpus, 'seed%d' % i), 'wb') as f:
                f.write(m)
    cmd = [sys.executable, os.path.join(root, 'vfw', 'fuzz_c06.py'),
           spec["mode"], out, corpus, '-runs=%d' % spec["runs"],
           '-seed=%d' % (spec["seed"] + 1), '-max_len=512',
           '-artifact_prefix=%s/' % out]
    env = dict(os.environ, PYTHONHASHSEED='0')
    p = subprocess.run(cmd, stdout=subprocess.PIPE, stderr=subprocess.STDOUT,
                       env=env, text=True, cwd=root)
    m = re.search(r'Done (\d+) runs', p.stdout)
    cov = re.findall(r'cov: (\d+)', p.stdout)
    res = {"evaluations": int(m.group(1)) if m else 0, "nontrivial": [],
           "samples": [], "known_hits": {}, "violations": [],
           "counters": {"atheris-%s-%s-runs" % (spec["mode"],
                                                spec["corpus"]):
                        int(m.group(1)) if m else 0,
                        "atheris-final-coverage": int(cov[-1]) if cov else 0}}
    vf = os.path.join(out, 'violation.json')
    if os.path.exists(vf):
        with open(vf) as f:
            res["violations"].append(json.load(f))
    elif p.returncode != 0 and not m:
        res["error"] = "atheris campaign failed:\n" + p.stdout[-2000:]
    shutil.rmtree(out, ignore_errors=True)
    return res


def run_shard(spec):
    stats = _SkStats()
    if spec["kind"] == 'atheris':
        return _run_atheris(spec)
    if spec["kind"] == 'daemon':
        found = hyp_search(_daemon_strategy(), execute_daemon, stats,
                           spec["seed"], spec["n"], known=spec["known"],
                           max_rounds=8)
    elif spec["kind"] == 'overlap':
        stats = Stats()
        found = hyp_search(_overlap_strategy(), execute_overlap, stats,
                           spec["seed"], spec["n"], known=spec["known"],
                           max_rounds=4)
    else:
        found = hyp_search(_client_strategy(), execute_client, stats,
                           spec["seed"], spec["n"], known=spec["known"])
    res = stats.as_dict()
    res["violations"] = found
    return res


def check_floors(counters, evaluations, tier):
    msgs = []
    if counters.get('nontrivial-message', 0) < 0.3 * max(
            1, counters.get('family-command', 0)):
        msgs.append("too few non-trivial messages")
    for k in ('family-raw', 'family-json', 'family-envelope',
              'family-command', 'client-sync', 'client-async',
              'deferred-reply'):
        if counters.get(k, 0) == 0:
            msgs.append("class %s never generated" % k)
    return msgs
