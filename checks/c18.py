"""C18 - signals reach exactly the addressed workers, with the named signal.

(table)  exhaustive: every member of signal.Signals x spellings through every
         acceptor (to_signum, convert_option, ini stop_signal, signal / kill
         request validation).
(fuzz)   near-miss designations must be refused everywhere, nothing sent.
(confine) SimWorld: signal / kill requests whose pid / childpid / children /
         recursive are drawn from own workers, their descendants, other
         watchers' workers, unrelated and dead pids; oracle = kernel signal
         log vs the addressed set computed from the kernel's process tree.
"""
import json
import os
import signal as _signal
import tempfile

from vfw.history import History
from vfw.runner import Stats, Violation, hyp_search, case_hash

PROPERTY = 'C18'
LEVEL = 'exploration'
RULE = ("table: |signal.Signals| x {NAME, SIGNAME} x {upper, lower, mixed "
        "case} + numbers + numeric strings + SIGRTMIN+n, through 5 acceptors "
        "(exhaustive).  fuzz: strings obtained by mutating valid names "
        "(trailing / embedded junk, unknown names, empty, bare SIG, module "
        "attributes that are not signals) must be refused by every acceptor "
        "and cause no signal.  confine: daemon with watcher A (2 workers "
        "with children and grandchildren), watcher B, unrelated processes "
        "and dead pids; requests signal / kill with name, pid, childpid, "
        "children, recursive drawn from all of those in active and stopped "
        "states.  Non-trivial = a request naming a pid that is not a worker "
        "of the named watcher, or a near-miss designation; distinct by "
        "structural class of the request / by the string.")
ASSUMPTIONS = [
    "documented designation forms: integers, numeric strings, names with or "
    "without SIG in any letter case, NAME+offset; non-string non-integer JSON "
    "values and decorated numerals carry no accept/refuse claim",
    "confinement verdicts are relative to the simulated kernel: an os.kill "
    "on a pid outside its table is recorded, never executed",
]

VALID = {}
for _s in _signal.Signals:
    VALID[_s.name] = int(_s)
# aliases exported by the signal module (SIGCLD, SIGPOLL, SIGIOT, ...)
for _n in dir(_signal):
    if _n.startswith('SIG') and not _n.startswith('SIG_') and \
            isinstance(getattr(_signal, _n), _signal.Signals):
        VALID[_n] = int(getattr(_signal, _n))


def spellings(name):
    short = name[3:]
    out = set()
    for base in (name, short):
        out.add(base)
        out.add(base.lower())
        out.add(base.capitalize())
        out.add(''.join(c.lower() if i % 2 else c
                        for i, c in enumerate(base)))
    return sorted(out)


def acceptors():
    from circus.util import to_signum
    from circus.commands.util import convert_option
    from circus.commands import get_commands
    from circus.config import get_config
    cmds = get_commands()

    def via_signal(v):
        p = {"name": "w", "signum": v}
        cmds['signal'].validate(p)
        return p["signum"]

    def via_kill(v):
        p = {"name": "w", "signum": v}
        cmds['kill'].validate(p)
        return p["signum"]

    def via_ini(v):
        d = tempfile.mkdtemp(prefix='c18-')
        try:
            path = os.path.join(d, 'c.ini')
            with open(path, 'w') as f:
                f.write("[circus]\n[watcher:w]\ncmd = x\nstop_signal = %s\n"
                        % v)
            return get_config(path)["watchers"][0]["stop_signal"]
        finally:
            import shutil
            shutil.rmtree(d, ignore_errors=True)
    return [('to_signum', to_signum),
            ('convert_option', lambda v: convert_option('stop_signal', v)),
            ('signal-request', via_signal), ('kill-request', via_kill),
            ('ini-stop_signal', via_ini)]


def run_table(stats, known):
    found = {}
    accs = acceptors()
    cases = []
    for name, num in sorted(VALID.items()):
        for sp in spellings(name):
            cases.append((sp, num))
    for num in sorted(set(VALID.values())):
        cases.append((num, num))
        cases.append((str(num), num))
    rtmin = int(_signal.SIGRTMIN)
    for off in (0, 1, 2, 15):
        cases.append(('SIGRTMIN+%d' % off, rtmin + off))
        cases.append(('rtmin+%d' % off, rtmin + off))
    for (v, num) in cases:
        for (aname, fn) in accs:
            if aname == 'ini-stop_signal' and not isinstance(v, str):
                v2 = str(v)
            else:
                v2 = v
            case = {"designation": v2, "acceptor": aname, "expect": num}
            try:
                got = fn(v2)
                ok = int(got) == num
                detail = 'gave %r' % (got,)
            except Exception as e:
                ok = False
                detail = 'raised %s: %s' % (type(e).__name__, e)
            stats.record(case, isinstance(v2, str) and not v2.isdigit(),
                         ['table'])
            if not ok:
                sig = 'C18:designation-wrong:%s' % aname
                if sig not in known and sig not in found:
                    found[sig] = {"signature": sig, "case": case,
                                  "message": '%r through %s %s, expected %d'
                                  % (v2, aname, detail, num)}
    return list(found.values())


def near_miss_ok(s):
    """True if s is NOT one of the documented designation forms."""
    import re
    if re.fullmatch(r'\s*[+-]?\d[\d_]*\s*', s):
        return False          # numerals (possibly decorated): no claim
    m = re.fullmatch(r'(\w+)(\+(\d+))?', s)
    if m:
        name = m.group(1).upper()
        if not name.startswith('SIG'):
            name = 'SIG' + name
        if name in VALID:
            return False
    return True


def execute_fuzz(case):
    s = case["designation"]
    viols = []
    if not near_miss_ok(s):
        return viols, False, ['fuzz-valid-form']
    for (aname, fn) in acceptors():
        if aname == 'ini-stop_signal' and (
                not s.strip() or '\n' in s or s != s.strip() or
                s[0] in '#;' or ' ;' in s or '\r' in s):
            continue       # the ini syntax itself would alter the value
        try:
            got = fn(s)
        except Exception:
            continue
        viols.append(Violation(
            'C18:near-miss-accepted:%s' % aname,
            '%r is not a signal designation, yet %s accepts it as %r' % (
                s, aname, got)))
    return viols, True, ['fuzz-near-miss']


# ---------------------------------------------------------------------------
# confinement
# ---------------------------------------------------------------------------

def _tree_beh(stub):
    kid = {"react": "ignore" if stub else "die", "delay": 0.0,
           "children": [{"react": "die", "delay": 0.0}]}
    return {"react": "ignore" if stub else "die", "delay": 0.0,
            "children": [kid, {"react": "die", "delay": 0.0}]}


def execute_confine(case):
    stub = case["stubborn"]
    hc = {"watchers": [
        {"name": "A", "numprocesses": 2, "graceful_timeout": 0.2,
         "stop_children": case["stop_children"]},
        {"name": "B", "numprocesses": 1, "graceful_timeout": 0.2}],
        "tape": [_tree_beh(stub), _tree_beh(stub),
                 {"react": "ignore" if stub else "die", "delay": 0.0,
                  "children": [{"react": "die", "delay": 0.0}]}],
        "default_beh": {"react": "die", "delay": 0.0}, "ops": []}
    h = History(hc)
    w = h.world
    k = w.kernel
    viols = []
    classes = set()
    nontrivial = False
    try:
        h.start()
        unrelated = [k.add_proc(1, {"react": "die"}, 'unrelated')
                     for _ in range(2)]
        if case["state"] == 'A-stopped':
            w.request('stop', {"name": "A", "match": "simple",
                               "waiting": True})
            w.drain()
        a_workers = w.live('A')
        b_workers = w.live('B')
        dead = []
        in_flight = False
        if case["state"] == 'kill-in-flight' and a_workers and stub:
            # one worker of A is being terminated and sits in its grace
            # period (it ignores the stop signal): still an active worker
            w.request('kill', {"name": "A", "pid": a_workers[0],
                               "graceful_timeout": 30})
            w.run_idle()
            in_flight = True
            classes.add('termination-in-flight')
        if case["state"] == 'one-dead' and a_workers:
            k.external_death(a_workers[0], ['exit', 0])
            w.full_check()
            dead = [a_workers[0]]
            a_workers = w.live('A')

        def desc(p, recursive=True):
            return k.children_of(p, recursive)
        pools = {
            "own0": a_workers[0] if a_workers else 99990,
            "own1": a_workers[1] if len(a_workers) > 1 else 99991,
            "own0-child": (desc(a_workers[0], False) or [99992])[0]
            if a_workers else 99992,
            "own0-grandchild": ([p for p in desc(a_workers[0])
                                 if p not in desc(a_workers[0], False)] or
                                [99993])[0] if a_workers else 99993,
            "own1-child": (desc(a_workers[1], False) or [99994])[0]
            if len(a_workers) > 1 else 99994,
            "other": b_workers[0] if b_workers else 99995,
            "other-child": (desc(b_workers[0], False) or [99996])[0]
            if b_workers else 99996,
            "unrelated": unrelated[0], "dead": dead[0] if dead else 99997,
            "nonexistent": 99999, "daemon": 4999999, "init": 1,
        }
        for msg in case["requests"]:
            if w.dead:
                break
            props = {"name": msg["name"], "signum": msg["signum"]}
            for fld in ('pid', 'childpid'):
                if msg.get(fld) is not None:
                    v = pools[msg[fld]]
                    props[fld] = str(v) if msg.get(fld + "_as_str") else v
            for fld in ('children', 'recursive'):
                if msg.get(fld) is not None:
                    props[fld] = msg[fld]
            cmd = msg["cmd"]
            if cmd == 'kill':
                props.pop('childpid', None)
                props.pop('children', None)
                props.pop('recursive', None)
                props["waiting"] = True
            k.apply_due()
            target_name = msg["name"]
            tworkers = sorted(w.live(target_name.upper()
                                     if target_name.upper() in ('A', 'B')
                                     else '?'))
            ever = [r["pid"] for r in k.spawn_log
                    if r["pid"] is not None and
                    r["owner"] == target_name.upper()]
            allowed = set(ever)
            for p in ever:
                allowed.update(k.descendants_ever(p))
            pristine = sorted(ever) == tworkers
            n0 = len(k.signal_log)
            fk0 = len(k.foreign_kills)
            # expected addressed set, from the kernel's process tree
            num = VALID.get(('SIG' + str(msg["signum"]).upper())
                            if not str(msg["signum"]).upper()
                            .startswith('SIG')
                            else str(msg["signum"]).upper(),
                            msg["signum"] if isinstance(msg["signum"], int)
                            else None)
            expect = None
            pidv = props.get('pid')
            if cmd == 'kill' and isinstance(pidv, str) and pidv.isdigit():
                pidv = int(pidv)      # kill's validate() converts it
            if cmd == 'signal' and num is not None and pristine and \
                    not isinstance(pidv, str):
                if 'pid' in props:
                    base = [pidv] if pidv in tworkers else []
                    addressed_ok = pidv in tworkers
                else:
                    base = list(tworkers)
                    addressed_ok = True
                expect = []
                if props.get('childpid'):
                    for p in base:
                        cp = props['childpid']
                        try:
                            cp = int(cp)
                        except (TypeError, ValueError):
                            cp = None
                        if cp in desc(p, False):
                            expect.append(cp)
                elif props.get('children'):
                    for p in base:
                        expect.extend(desc(p, False))
                else:
                    for p in base:
                        expect.append(p)
                        if props.get('recursive'):
                            expect.extend(desc(p, True))
                if not addressed_ok:
                    nontrivial = True
                    classes.add('pid-not-a-worker-of-named-watcher')
            elif cmd == 'kill' and 'pid' in props and pidv not in tworkers:
                nontrivial = True
                classes.add('pid-not-a-worker-of-named-watcher')
            # a zombie cannot receive anything (and vanishes for good when
            # its parent dies): the exact-set clause is about the processes
            # that were running when the request arrived
            running0 = set(p_.pid for p_ in k.procs.values()
                           if p_.state == 'running')
            kids0 = dict((p, list(desc(p, False))) for p in tworkers)
            req = w.request(cmd, props)
            # kill() calls that succeeded (ESRCH attempts are not sends)
            sync = [e for e in k.signal_log[n0:] if e["state"] != 'gone']
            if in_flight:
                w.run_idle()      # (do not run the grace period out)
            else:
                w.drain()
            allsig = k.signal_log[n0:]
            rep = req.reply() or {}
            # (1) confinement
            outside = [(e["pid"], e["sig"]) for e in allsig
                       if e["pid"] not in allowed]
            if outside or len(k.foreign_kills) > fk0:
                kinds = sorted(set(
                    kk for kk, vv in pools.items()
                    for (p_, _) in outside if vv == p_))
                viols.append(Violation(
                    'C18:signal-outside-named-watcher:%s:%s' % (
                        cmd, '+'.join(kinds) or 'foreign'),
                    '%s %r signalled %r, which are neither workers of %r nor '
                    'their descendants (allowed %r); foreign os.kill: %r' % (
                        cmd, props, outside, target_name, sorted(allowed),
                        k.foreign_kills[fk0:])))
            # (2) exact addressed set for signal requests
            if expect is not None and rep.get("status") == "ok":
                got = sorted((e["pid"], e["sig"]) for e in sync
                             if e["pid"] in running0)
                want = sorted((p, num) for p in expect if p in running0)
                missing = [x for x in want if x not in got]
                if got != want and not [x for x in got if x not in want] \
                        and all(any(pp in k.descendants_ever(wk) and
                                    k.procs[wk].died_at is not None and
                                    (wk, num) in got
                                    for wk in tworkers)
                                for (pp, _) in missing):
                    # descendants were looked up after their parent had
                    # been signalled and had died at once
                    viols.append(Violation(
                        'C18:addressed-set:descendants-missed:'
                        'parent-died-at-once',
                        'signal %r reached %r; descendants %r were missed: '
                        'their parent died from the signal before its '
                        'children were looked up' % (props, got, missing)))
                elif got != want:
                    viols.append(Violation(
                        'C18:addressed-set:%s' % _shape(msg),
                        'signal %r: signals sent %r, addressed set is %r' % (
                            props, got, want)))
            # (2b) kill on a stop_children watcher: "that worker's children
            # when asked" - the named signal reaches the direct children of
            # every addressed worker as well
            if cmd == 'kill' and num and pristine and not in_flight and \
                    rep.get("status") == "ok" and case["stop_children"] and \
                    target_name.upper() == 'A' and \
                    not isinstance(pidv, str):
                base = ([pidv] if pidv in tworkers else []) \
                    if 'pid' in props else list(tworkers)
                sent = set((e["pid"], e["sig"]) for e in allsig
                           if e["state"] != 'gone')
                missed = [c for p in base if p in running0
                          for c in kids0.get(p, [])
                          if c in running0 and (c, num) not in sent]
                if base:
                    classes.add('kill-with-stop_children')
                if missed:
                    viols.append(Violation(
                        'C18:kill:children-missed',
                        'kill %r on a stop_children watcher: the children '
                        '%r of the addressed workers %r never got signal '
                        '%d (sent: %r)' % (props, missed, base, num,
                                           sorted(sent))))
            if expect is not None and rep.get("status") == "error" and sync:
                viols.append(Violation(
                    'C18:error-reply-but-signal-sent',
                    'signal %r answered error, yet sent %r' % (
                        props, [(e["pid"], e["sig"]) for e in sync])))
            # (3) kill: the first signal each addressed worker gets is the
            #     designated one
            if cmd == 'kill' and num is not None and pristine and \
                    rep.get("status") == "ok":
                base = [pidv] if 'pid' in props else list(tworkers)
                base = [p for p in base if p in tworkers]
                for p in base:
                    mine = [e for e in allsig if e["pid"] == p]
                    if not mine or mine[0]["sig"] != num:
                        viols.append(Violation(
                            'C18:kill-wrong-signal',
                            'kill %r: worker %d first got %r, designated '
                            '%d' % (props, p, mine[:1] and mine[0]["sig"],
                                    num)))
                others = sorted(set(e["pid"] for e in allsig
                                    if e["pid"] in tworkers and
                                    e["pid"] not in base))
                if others:
                    viols.append(Violation(
                        'C18:kill-addressed-set',
                        'kill %r also signalled workers %r' % (props,
                                                               others)))
            classes.add('req-' + cmd)
            if viols:
                break
    finally:
        h.close()
    return viols, nontrivial, sorted(classes)


def _shape(msg):
    return '%s:pid=%s:childpid=%s:children=%s:recursive=%s' % (
        msg["cmd"], msg.get("pid"), msg.get("childpid"),
        msg.get("children"), msg.get("recursive"))


def execute(case):
    if "requests" in case:
        return execute_confine(case)
    if "acceptor" in case:
        # replay of a table case
        for (aname, fn) in acceptors():
            if aname == case["acceptor"]:
                try:
                    got = int(fn(case["designation"]))
                except Exception as e:
                    got = repr(e)
                if got != case["expect"]:
                    return [Violation(
                        'C18:designation-wrong:%s' % aname,
                        '%r -> %r, expected %r' % (case["designation"], got,
                                                   case["expect"]))], True, []
        return [], True, []
    return execute_fuzz(case)


def replay(case):
    return execute(case)[0]


def _fuzz_strategy():
    from hypothesis import strategies as st
    names = sorted(VALID)
    junk = st.sampled_from(['!', ' ', ' -9', '-', '+', '+x', '.', ',', '\t',
                            ';', 'x', '1', '_', '()', '\n', ' 9', '++1',
                            '+-1', '+1+1'])
    attrs = [a for a in dir(_signal) if not a.startswith('__')
             and a not in VALID and not a.startswith('_')]

    @st.composite
    def s(draw):
        kind = draw(st.integers(0, 6))
        base = draw(st.sampled_from(names))
        if draw(st.booleans()):
            base = base[3:]
        if draw(st.booleans()):
            base = base.lower()
        if kind == 0:
            return base + draw(junk)
        if kind == 1:
            i = draw(st.integers(0, len(base)))
            return base[:i] + draw(junk) + base[i:]
        if kind == 2:
            return draw(junk) + base
        if kind == 3:
            return draw(st.sampled_from(
                ['', 'SIG', 'sig', 'NOSUCH', 'SIGNOSUCH', 'TERMINATE',
                 'KIL', 'SIGSIGTERM', 'signal.SIGTERM', 'SIGTERM SIGKILL']))
        if kind == 4:
            a = draw(st.sampled_from(attrs))
            return a if draw(st.booleans()) else (
                a[3:] if a.upper().startswith('SIG') else a)
        if kind == 5:
            return base + '+' + draw(st.sampled_from(['', 'x', '-1', '1.5']))
        return draw(st.text(alphabet='SIGTERMKLsigtermkl_+0159 !', max_size=9))
    return s().map(lambda x: {"designation": x})


def _confine_strategy():
    from hypothesis import strategies as st
    pidpool = st.sampled_from(
        [None, None, "own0", "own1", "own0-child", "own0-grandchild",
         "own1-child", "other", "other-child", "unrelated", "dead",
         "nonexistent", "daemon", "init"])
    sig = st.sampled_from([15, "TERM", "sigusr1", 10, "HUP", 9, "Kill", 2,
                           "SIGQUIT", "15", 0])
    req = st.fixed_dictionaries({
        "cmd": st.sampled_from(['signal', 'signal', 'kill']),
        "name": st.sampled_from(['A', 'A', 'a', 'B']),
        "signum": sig, "pid": pidpool,
        "pid_as_str": st.sampled_from([False, False, False, True]),
        "childpid": st.sampled_from(
            [None, None, None, "own0-child", "own0-grandchild",
             "own1-child", "other-child", "other", "unrelated",
             "nonexistent", "own0"]),
        "children": st.sampled_from([None, None, True, False]),
        "recursive": st.sampled_from([None, None, True, False])})
    return st.fixed_dictionaries({
        "requests": st.lists(req, min_size=1, max_size=3),
        "state": st.sampled_from(['active', 'active', 'kill-in-flight',
                                  'A-stopped',
                                  'one-dead']),
        "stubborn": st.booleans(),
        "stop_children": st.booleans()})


class _Stats(Stats):
    def record(self, case, nontrivial, classes=()):
        self.evaluations += 1
        for c in classes:
            self.count(c)
        if nontrivial:
            if "requests" in case:
                key = {"r": [_shape(m) + m["name"] for m in case["requests"]],
                       "s": case["state"]}
            else:
                key = case
            hsh = case_hash(key)
            if hsh not in self.nontrivial:
                self.nontrivial.add(hsh)
                if len(self.samples) < self.max_samples:
                    self.samples.append(case)


def plan(tier, seed):
    nf = 5000 if tier == 'quick' else 40000
    nc = 1500 if tier == 'quick' else 10000
    return ([{"kind": "table"}] +
            [{"kind": "fuzz", "seed": seed * 100 + i, "n": nf}
             for i in range(3)] +
            [{"kind": "confine", "seed": seed * 100 + 50 + i, "n": nc}
             for i in range(12)])


def run_shard(spec):
    stats = _Stats()
    if spec["kind"] == 'table':
        found = run_table(stats, spec["known"])
        res = stats.as_dict()
        res["violations"] = found
        res["exhaustive"] = True
        return res
    strat = _fuzz_strategy() if spec["kind"] == 'fuzz' \
        else _confine_strategy()
    found = hyp_search(strat, execute, stats, spec["seed"], spec["n"],
                       known=spec["known"], max_rounds=8)
    res = stats.as_dict()
    res["violations"] = found
    return res


def check_floors(counters, evaluations, tier):
    msgs = []
    if counters.get('pid-not-a-worker-of-named-watcher', 0) < 100:
        msgs.append("too few foreign-pid requests")
    if counters.get('fuzz-near-miss', 0) < 500:
        msgs.append("too few near-miss designations")
    return msgs
