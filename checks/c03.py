"""C03 - graceful termination: stop signal first, SIGKILL only after the
grace period, never to a worker that exited in time, always (within one
polling step) to one that did not; children included with stop_children.

The oracle reads the simulated kernel's signal log (virtual timestamps).
A termination episode of a pid opens at the first 'kill' event the watcher
publishes for it.
"""
from vfw.history import History, lifecycle_cases
from vfw.runner import Stats, Violation, hyp_search

PROPERTY = 'C03'
LEVEL = 'exploration'
RULE = ("case = watchers over stop_signal in {TERM, INT, QUIT, USR1, HUP}, "
        "graceful_timeout in {0.1, 0.25, 0.3, 1.0, 2.05}, stop_children, "
        "max_age; behaviour tape with reaction delays placed relative to the "
        "timeout (0, one poll step, gt-0.1, gt-eps, gt, gt+eps, 10*gt, "
        "never) and 0-2 child processes; ops from {stop, restart, decr, "
        "reload (all modes), kill with signum / graceful_timeout overrides, "
        "set stop_signal / graceful_timeout, deaths, checks, time}.  "
        "Non-trivial = an episode whose worker reacts within one polling "
        "step of the timeout, ignores the signal, or has children; distinct "
        "by hash of the case.")
ASSUMPTIONS = [
    "verdicts are relative to the simulated kernel (vfw/kernel.py); "
    "timestamps are virtual and exact (comparisons use eps = 1e-4 plus 1 us "
    "per spawn)",
    "an episode is opened by the first 'kill' event published for the pid",
    "a SIGKILL merely *sent* to a worker that died within the last polling "
    "step (0.1 s) is not a delivery and is only counted",
    "before_signal vetoes are out of scope (C14)",
]
EPS = 1e-3
STEP = 0.1
import signal as _sig
SIGNALS = {"TERM": 15, "INT": 2, "QUIT": 3, "USR1": 10, "HUP": 1,
           # the documented NAME+offset form
           "RTMIN+1": int(_sig.SIGRTMIN) + 1,
           "SIGRTMIN+2": int(_sig.SIGRTMIN) + 2}


def _num(v, default):
    if isinstance(v, (int, float)) and not isinstance(v, bool):
        return v
    return default


def execute(case):
    if "token" in case:
        from vfw import live
        return live.execute_live(case, ('C03:live',))
    h = History(case)
    w = h.world
    k = w.kernel
    viols = []
    classes = set()
    # model of the applicable policy per watcher: list of (time, sig, gt)
    policy = {}
    for wc in case["watchers"]:
        policy[wc["name"]] = [(-1, int(wc.get("stop_signal", 15)),
                               float(wc.get("graceful_timeout", 30.0)))]
    stop_children = dict((wc["name"], bool(wc.get("stop_children")))
                         for wc in case["watchers"])
    overrides = {}     # request idx -> (sig or None, gt or None)

    sent_at = {}

    def before_op(h_, i, op):
        sent_at[i] = len(k.signal_log)

    def on_op(h_, i, op):
        if op[0] != 'req':
            return
        req = h_.reqs[i]
        cmd, props = op[1], op[2]
        rep = req.reply()
        refused = rep is not None and rep.get("status") != "ok"
        if cmd == 'set' and not refused:
            name = props["name"]
            _, s0, g0 = policy[name][-1]
            o = props["options"]
            s1 = o.get("stop_signal", s0)
            g1 = float(o.get("graceful_timeout", g0))
            # applies to signals emitted after this request was dispatched
            policy[name].append((sent_at[i], s1, g1))
        if cmd == 'kill':
            overrides[req.idx] = (props.get("signum"),
                                  props.get("graceful_timeout"))

    def policy_at(name, seq):
        cur = policy[name][0]
        for p in policy[name]:
            if p[0] <= seq:
                cur = p
        return cur[1], cur[2]

    try:
        h.start()
        h.run(on_op, before_op)
        ok = h.settle(checks=0)
        if w.blocked:
            viols.append(Violation('C03:blocked:%s' % w.blocked_where,
                                   'event loop blocked'))
        elif not ok and not w.exited:
            viols.append(Violation('C03:no-quiescence', 'not quiescent'))
        else:
            k.apply_due()
            first_kill_ev = {}
            for idx, (t, topic, body) in enumerate(w.events):
                if topic.endswith('.kill') and body:
                    # the kill event follows the signal it reports: the
                    # episode's first signal is the entry just before it
                    first_kill_ev.setdefault(body.get("process_pid"),
                                             w.event_nsig[idx] - 1)
            by_pid = {}
            for seq, e in enumerate(k.signal_log):
                e["seq"] = seq
                by_pid.setdefault(e["pid"], []).append(e)
            for pid, seq_ev in sorted(first_kill_ev.items()):
                p = k.procs.get(pid)
                if p is None or p.kind != 'worker':
                    continue
                name = p.owner
                sigs = [e for e in by_pid.get(pid, [])
                        if e["seq"] >= seq_ev]
                if not sigs:
                    continue
                first = sigs[0]
                t0 = first["t"]
                want_sig, gt = policy_at(name, first["seq"])
                ov = overrides.get(first["ctx"]) if first["ctx"] is not None \
                    else None
                if ov is not None:
                    if ov[0] is not None:
                        want_sig = SIGNALS.get(str(ov[0]).upper(), ov[0])
                    if ov[1] is not None:
                        gt = float(ov[1])
                died_at = p.died_at
                # dead (unnoticed) before the termination began?  Judged by
                # kernel-call order: virtual timestamps may coincide
                dead_before = (p.died_ncall is not None and
                               p.died_ncall < first["ncall"])
                beh = p.beh
                delay = beh.get("delay", 0.0)
                interesting = (beh.get("react") == 'ignore' or
                               abs(delay - gt) <= STEP + 1e-9 or
                               bool(beh.get("children")))
                if interesting:
                    classes.add('interesting-episode')
                classes.add('episode')
                # (a) stop signal first
                if first["sig"] != want_sig:
                    viols.append(Violation(
                        'C03:first-signal:%s' % (
                            'SIGKILL' if first["sig"] == 9 else 'other'),
                        'worker %d of %s: first signal of the termination '
                        'is %d, policy says %d (gt=%s, override=%r)' % (
                            pid, name, first["sig"], want_sig, gt, ov)))
                    continue
                kills = [e for e in sigs if e["sig"] == 9]
                deliv = [e for e in kills if e["delivered"]]
                # (b) never earlier
                for e in deliv:
                    if e["t"] - t0 < gt - EPS:
                        viols.append(Violation(
                            'C03:sigkill-too-early',
                            'worker %d of %s: stop signal at t=%.4f, SIGKILL '
                            'delivered at t=%.4f, only %.4f s later with '
                            'graceful_timeout=%s' % (pid, name, t0, e["t"],
                                                     e["t"] - t0, gt)))
                # (c) not to a worker that exited in time
                for e in kills:
                    # (a worker that was already dead when the termination
                    # began - unnoticed so far - did not "exit in time": the
                    # signals go to a zombie and reach nobody)
                    # (a stop signal sent to the corpse before this SIGKILL
                    # marks a *new* termination of a worker whose death has
                    # not been noticed yet, not the end of this one)
                    restarted = any(
                        x["sig"] != 9 and not x["delivered"] and
                        p.died_ncall is not None and
                        p.died_ncall < x["ncall"] <= e["ncall"]
                        for x in sigs)
                    if not e["delivered"] and died_at is not None and \
                            not dead_before and not restarted and \
                            t0 - EPS <= died_at <= t0 + gt + EPS:
                        dead_for = e["t"] - died_at
                        if dead_for > STEP + EPS:
                            viols.append(Violation(
                                'C03:sigkill-after-timely-exit',
                                'worker %d of %s exited at t=%.4f (in time) '
                                'yet SIGKILL was sent at t=%.4f, %.3f s '
                                'after its death' % (pid, name, died_at,
                                                     e["t"], dead_for)))
                        else:
                            classes.add('sigkill-sent-to-just-dead')
                # (d) always, within one polling step
                limit = t0 + gt + STEP + EPS + 0.01
                alive_at_deadline = (died_at is None or
                                     died_at > t0 + gt + EPS)
                # (a worker that dies by itself between the deadline and
                # the next poll needs no SIGKILL)
                alive_past_poll = died_at is None or died_at > limit
                if alive_at_deadline:
                    classes.add('needed-sigkill')
                if alive_past_poll and gt >= 0:
                    on_time = [e for e in deliv if e["t"] <= limit]
                    if not on_time:
                        viols.append(Violation(
                            'C03:no-sigkill-after-timeout',
                            'worker %d of %s was still running at '
                            't0+graceful_timeout (t0=%.4f, gt=%s, died_at=%r)'
                            ' but no SIGKILL was delivered by t0+gt+0.1; '
                            'SIGKILLs: %r' % (
                                pid, name, t0, gt, died_at,
                                [(round(e["t"], 4), e["delivered"])
                                 for e in kills])))
                # (e) children
                kids = [c for c in k.procs.values() if c.creator == pid]
                if dead_before:
                    # its children were orphaned when it died by itself:
                    # they are no longer this worker's to signal
                    kids = []
                if kids:
                    classes.add('episode-with-children')
                    for c in kids:
                        csig = [e for e in by_pid.get(c.pid, [])]
                        ran_at_t0 = c.died_at is None or c.died_at > t0
                        if stop_children[name] and ran_at_t0 and \
                                c.ppid == pid or (
                                    stop_children[name] and ran_at_t0 and
                                    p.died_at is not None and
                                    p.died_at >= t0):
                            if not [e for e in csig if e["sig"] == want_sig
                                    and abs(e["t"] - t0) < EPS]:
                                viols.append(Violation(
                                    'C03:child-missed-stop-signal:%s' % (
                                        'parent-died-at-once'
                                        if p.died_at is not None and
                                        abs(p.died_at - t0) < 1e-9
                                        else 'parent-alive'),
                                    'stop_children: child %d of worker %d '
                                    'did not get signal %d at t0=%.4f '
                                    '(got %r)' % (c.pid, pid, want_sig, t0,
                                                  [(e["sig"], round(e["t"],
                                                                    4))
                                                   for e in csig])))
                        for e in (deliv if stop_children[name] else []):
                            c_running = (c.died_at is None or
                                         c.died_at >= e["t"] - 1e-9)
                            if c_running and not [
                                    x for x in csig if x["sig"] == 9 and
                                    abs(x["t"] - e["t"]) < EPS]:
                                viols.append(Violation(
                                    'C03:child-missed-sigkill:%s' % (
                                        'parent-died-at-once'
                                        if p.died_at is not None and
                                        abs(p.died_at - e["t"]) < 1e-9
                                        else 'parent-alive'),
                                    'child %d of worker %d was running when '
                                    'the worker got SIGKILL at t=%.4f but '
                                    'got none' % (c.pid, pid, e["t"])))
    finally:
        h.close()
    seen = set()
    out = []
    for v in viols:
        if v["signature"] not in seen:
            seen.add(v["signature"])
            out.append(v)
    return out, 'interesting-episode' in classes, sorted(classes)


def replay(case):
    return execute(case)[0]


def _strategy():
    from hypothesis import strategies as st
    extra = st.fixed_dictionaries({}, optional={
        "stop_signal": st.sampled_from([15, 2, 3, 10, 1]),
        "graceful_timeout": st.sampled_from([0.1, 0.25, 0.3, 1.0, 2.05, 0]),
        "stop_children": st.booleans(),
        "max_age": st.sampled_from([0, 1]),
    })
    base = lifecycle_cases(
        requests=('decr', 'restart', 'reload', 'stop', 'start', 'incr'),
        children=2, kill_cmd=True, extra_watcher_opts=extra, max_ops=24)

    @st.composite
    def case(draw):
        c = draw(base)
        # tape delays relative to the watchers' actual timeouts
        gts = sorted(set(float(wc.get("graceful_timeout", 30.0))
                         for wc in c["watchers"]))
        for b in c["tape"]:
            if b.get("react") != 'ignore' and draw(st.booleans()):
                gt = draw(st.sampled_from(gts))
                b["delay"] = draw(st.sampled_from(
                    [0.0, 0.099, max(gt - 0.1, 0), max(gt - 1e-3, 0), gt,
                     gt + 1e-3, gt + 0.05, gt * 10]))
        names = [wc["name"] for wc in c["watchers"]]
        # sprinkle policy changes
        nset = draw(st.integers(0, 2))
        for _ in range(nset):
            pos = draw(st.integers(0, len(c["ops"])))
            opt = draw(st.sampled_from(
                [{"stop_signal": 2}, {"stop_signal": 15},
                 {"graceful_timeout": 0.25}, {"graceful_timeout": 0.1},
                 {"graceful_timeout": 0},
                 {"stop_signal": 10, "graceful_timeout": 0.3}]))
            c["ops"].insert(pos, ["req", "set", {
                "name": draw(st.sampled_from(names)), "options": opt}])
        return c
    return case()


def plan(tier, seed):
    n = 1000 if tier == 'quick' else 12000
    return ([{"seed": seed * 100 + i, "n": n} for i in range(14)] +
            [{"kind": "live", "seed": seed * 100 + 60 + i,
              "n": 3 if tier == 'quick' else 40} for i in range(2)])


def run_shard(spec):
    stats = Stats()
    if spec.get("kind") == 'live':
        from vfw import live
        found = hyp_search(live.strategy(always_restart=True), execute,
                           stats, spec["seed"], spec["n"],
                           known=spec["known"], max_rounds=2, shrink=False)
        res = stats.as_dict()
        res["violations"] = found
        res["inconclusive"] = stats.counters.get('live-inconclusive', 0)
        return res
    found = hyp_search(_strategy(), execute, stats, spec["seed"], spec["n"],
                       known=spec["known"], max_rounds=6)
    res = stats.as_dict()
    res["violations"] = found
    return res


def check_floors(counters, evaluations, tier):
    msgs = []
    for key, frac in (('episode', 0.15), ('interesting-episode', 0.1),
                      ('needed-sigkill', 0.05),
                      ('episode-with-children', 0.03)):
        if counters.get(key, 0) < frac * evaluations:
            msgs.append("%s in only %d of %d cases" % (
                key, counters.get(key, 0), evaluations))
    return msgs
