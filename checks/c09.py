"""C09 - the published event stream reconstructs the live process set.

SimWorld histories; the oracle parses the frames captured on the PUB socket
fake and compares them with the kernel's process table and death log.
"""
from vfw.history import History, lifecycle_cases
from vfw.runner import Stats, Violation, hyp_search

PROPERTY = 'C09'
LEVEL = 'exploration'
RULE = ("case = 1-2 watchers + behaviour tape + <= 30 ops from {incr, decr, "
        "set numprocesses, restart, reload, stop, start, rm, config-file edits "
        "(watcher added / removed / changed, [circus] changed) + "
        "reloadconfig in a third of the cases, an on-demand watcher on a real "
        "managed socket with client connections in a quarter, hooks with "
        "true / false / raising outcomes in a third, worker exit with any "
        "status 0..255 or terminating signal, death at the k-th next kernel "
        "call, periodic check, loop step, time advance}; the PUB frames are "
        "parsed after every op and at the settled end.  Non-trivial = the "
        "history contains a worker death not caused by the supervisor; "
        "distinct by hash of the case.")
ASSUMPTIONS = [
    "the PUB socket is a recording fake (frames exactly as passed to "
    "send_multipart)",
    "verdicts are relative to the simulated kernel (vfw/kernel.py)",
    "a 'kill' event marks a worker the supervisor is terminating; it is "
    "expected dead once the daemon is quiescent",
]


def execute(case):
    h = History(case)
    w = h.world
    k = w.kernel
    viols = []
    classes = set()
    names = [wc["name"] for wc in case["watchers"]]
    seen = [0]
    spawned = {}      # pid -> watcher
    reaped = {}       # pid -> exit_code
    killed = set()
    kill_time = {}
    last_life = {}    # watcher -> 'start' | 'stop'

    def consume():
        evs = w.parsed_events()
        for (t, wname, ev, body) in evs[seen[0]:]:
            if ev == 'spawn':
                pid = body.get("process_pid")
                if pid in spawned:
                    viols.append(Violation(
                        'C09:duplicate-spawn', 'second spawn event for pid '
                        '%r (watcher %s)' % (pid, wname)))
                spawned[pid] = wname
                if k.state(pid) == 'gone' and pid not in k.procs:
                    viols.append(Violation(
                        'C09:spawn-unknown-pid', 'spawn event for pid %r '
                        'that was never created' % pid))
            elif ev == 'reap':
                pid = body.get("process_pid")
                if pid in reaped:
                    viols.append(Violation(
                        'C09:duplicate-reap', 'second reap event for pid %r'
                        % pid))
                if pid not in spawned and pid not in rejected():
                    viols.append(Violation(
                        'C09:reap-before-spawn', 'reap event for pid %r '
                        'without a preceding spawn event' % pid))
                reaped[pid] = body.get("exit_code")
            elif ev == 'kill':
                pid = body.get("process_pid")
                if pid in spawned:
                    killed.add(pid)
                    kill_time.setdefault(pid, t)
            elif ev in ('start', 'stop'):
                last_life[wname] = ev
        seen[0] = len(evs)

    ignore_flag = dict(
        (wc["name"], bool((wc.get("hooks") or {}).get(
            "after_spawn", [None, False])[1]))
        for wc in case["watchers"])

    def rejected():
        """pids whose after_spawn hook answered false: never adopted, they
        are terminated without having been announced."""
        return set(e["kw"].get("pid") for e in h.hook_log
                   if e["hook"] == 'after_spawn' and (
                       e["outcome"] in ('false', 'none', 'zero') or
                       (e["outcome"] in ('raise', 'raise-bare') and
                        not ignore_flag.get(e["watcher"]))))

    orphaned = set()     # pids of watchers removed with nostop: deliberately
                         # left alone and no longer reported

    def on_op(h_, i, op):
        if op[0] == 'req' and op[1] == 'rm' and op[2].get("nostop"):
            rep = h_.reqs[i].reply()
            if rep is None or rep.get("status") == "ok":
                orphaned.update(p.pid for p in k.procs.values()
                                if p.owner == op[2].get("name"))
        consume()

    try:
        h.start()
        consume()
        h.run(on_op)
        ok = h.settle(checks=1)
        consume()
        if w.blocked:
            viols.append(Violation('C09:blocked:%s' % w.blocked_where,
                                   'event loop blocked'))
        elif ok and not w.exited:
            names = h.watcher_names() or []
            # adopted workers: every pid the daemon reports had a spawn event
            for name in names:
                pids = h.pids(name) or []
                for pid in pids:
                    if pid not in spawned:
                        viols.append(Violation(
                            'C09:listed-without-spawn-event', 'pid %r listed '
                            'for %s never had a spawn event' % (pid, name)))
            # reconstruction
            def kept(p):
                return p not in orphaned
            recon = sorted(p for p in spawned
                           if p not in reaped and p not in killed and
                           kept(p))
            live = sorted(p for p in w.eff_live() if kept(p))
            if recon != live:
                only_ev = [p for p in recon if p not in live]
                only_k = [p for p in live if p not in recon]
                sig = 'C09:reconstruction'
                if only_ev:
                    causes = sorted(set(str(k.procs[p].cause)
                                        for p in only_ev))
                    sig += ':dead-without-reap-event:' + '+'.join(causes)
                if only_k:
                    sig += ':live-but-marked-gone'
                viols.append(Violation(
                    sig, 'pids with spawn and no reap/kill event %r != live '
                    'workers %r (only in events: %r, only alive: %r)' % (
                        recon, live, only_ev, only_k)))
            # own deaths are reported with their status
            for d in k.death_log:
                if d["cause"] not in ('external', 'fault', 'lifetime'):
                    continue
                pid = d["pid"]
                if k.procs[pid].kind != 'worker' or pid not in spawned:
                    continue
                if pid in orphaned:
                    continue
                if pid in kill_time and kill_time[pid] <= d["t"] + 1e-9:
                    continue      # supervisor was already terminating it
                ws = d["wstatus"]
                want = -(ws & 0x7f) if (ws & 0x7f) else (ws >> 8) & 0xff
                if pid not in reaped:
                    viols.append(Violation(
                        'C09:own-death-without-reap-event:%s' % d["cause"],
                        'worker %d died by itself (%s, status %d) at '
                        't=%.3f; a complete check later there is still no '
                        'reap event' % (pid, d["cause"], want, d["t"])))
                elif reaped[pid] != want:
                    viols.append(Violation(
                        'C09:wrong-exit-code',
                        'worker %d died with %d but the reap event says '
                        'exit_code=%r' % (pid, want, reaped[pid])))
                classes.add('own-death')
            # watcher start/stop events agree with the reported status
            for name in names:
                st = h.status(name)
                ev = last_life.get(name)
                if st == 'active' and ev != 'start':
                    viols.append(Violation(
                        'C09:status-active-last-event-%s' % ev,
                        'watcher %s reports active but its last start/stop '
                        'event is %r' % (name, ev)))
                if st == 'stopped' and ev == 'start':
                    viols.append(Violation(
                        'C09:status-stopped-last-event-start',
                        'watcher %s reports stopped but its last start/stop '
                        'event is start' % name))
        if k.faults_fired:
            classes.add('fault-fired')
        if any(d["cause"] in ('external', 'fault', 'lifetime')
               for d in k.death_log):
            classes.add('has-own-death')
    finally:
        h.close()
    return viols, 'has-own-death' in classes, sorted(classes)


def replay(case):
    return execute(case)[0]


def _strategy():
    from hypothesis import strategies as st
    return lifecycle_cases(
        extra_watcher_opts=st.fixed_dictionaries(
            {}, optional={"shell": st.just(True)}),statuses_full=True, respawn_false=True,
                           kill_cmd=True, signal_cmd=True, job_control=True,
                           children=1, set_other=True, rm=True,
                           config=True, ondemand=True, hooks=True,
                           capture=True)


def plan(tier, seed):
    n = 900 if tier == 'quick' else 15000
    return [{"seed": seed * 100 + i, "n": n} for i in range(16)]


def run_shard(spec):
    stats = Stats()
    found = hyp_search(_strategy(), execute, stats, spec["seed"], spec["n"],
                       known=spec["known"])
    res = stats.as_dict()
    res["violations"] = found
    return res


def check_floors(counters, evaluations, tier):
    if counters.get('has-own-death', 0) < 0.12 * evaluations:
        return ["own death in only %d of %d histories" % (
            counters.get('has-own-death', 0), evaluations)]
    return []
