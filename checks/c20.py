"""C20 - size-based log rotation keeps a contiguous tail.

Generated write sequences against the real FileStream in a scratch
directory; the oracle reads the files back after every write.
"""
import itertools
import locale
import os
import shutil
import tempfile
from datetime import datetime

from vfw.runner import Stats, Violation, hyp_search

PROPERTY = 'C20'
LEVEL = 'exploration'
RULE = ("cases = (max_bytes, backup_count, time_format?, pre-existing "
        "active/backup files, file encoding utf-8 or latin-1 (the daemon's "
        "locale), sequence of text writes as str or utf-8 bytes - ASCII, any "
        "Unicode, now and then a lone surrogate - and close/open pairs); exhaustive sub-run enumerates every length "
        "vector for small bounds, the random sub-run draws sizes around "
        "max_bytes.  Non-trivial = the sequence caused >= 2 rollovers; "
        "distinct by hash of the whole case.")
ASSUMPTIONS = [
    "files are read back through the OS after each write (no FileStream "
    "internals are consulted)",
    "size clause is only asserted where every write is shorter than "
    "max_bytes, is ASCII or handed over as bytes (so that its size in bytes "
    "is known) and no time_format is set",
    "datetime.now is pinned through the documented FileStream.now seam",
    "a latin-1 locale is emulated by a FileStream subclass whose _open() "
    "passes encoding='latin-1'; where the file's encoding cannot represent "
    "the text (or the text holds a lone surrogate) contents are compared "
    "after mapping every character beyond U+00FF to '?' on both sides",
]

UTF8 = locale.getpreferredencoding(False).lower().replace('-', '') == 'utf8'
PINNED = datetime(2020, 1, 2, 3, 4, 5)


def _read(path):
    with open(path, 'rb') as f:
        return f.read()


def _lossy(x):
    return x.encode('latin-1', 'replace').decode('latin-1')


def execute(case):
    from circus.stream.file_stream import FileStream
    enc = case.get("encoding") or 'utf8'
    if case.get("encoding"):
        class Stream(FileStream):
            def _open(self):
                return open(self._filename, 'a+', encoding=enc)
    else:
        Stream = FileStream
    lossy = bool(case.get("encoding")) or any(
        op[0] == 'w' and any(0xD800 <= ord(c) <= 0xDFFF for c in op[1])
        for op in case["ops"])
    norm = _lossy if lossy else (lambda x: x)
    d = tempfile.mkdtemp(prefix='c20-', dir=os.environ.get('VERIF_SCRATCH'))
    viols = []
    rollovers = 0
    try:
        fn = os.path.join(d, 'log')
        mb = case["max_bytes"]
        bc = case["backup_count"]
        tf = case.get("time_format")
        history = ''
        pre = case.get("pre") or {}
        for idx in sorted((int(i) for i in pre), reverse=True):
            data = pre[str(idx)].encode('utf8')
            history += pre[str(idx)]
            with open(fn if idx == 0 else '%s.%d' % (fn, idx), 'wb') as f:
                f.write(data)
        kw = {}
        if mb:
            kw = dict(max_bytes=mb, backup_count=bc)
        stream = Stream(filename=fn, time_format=tf, **kw)
        stream.now = lambda: PINNED
        prefix = None
        if tf is not None:
            prefix = '%s [%d] | ' % (PINNED.strftime(tf), 4242)
        exp_lines = []
        exp_prefix = []
        small = True
        last1 = _read(fn + '.1') if os.path.exists(fn + '.1') else None
        for op in case["ops"]:
            if op[0] == 'reopen':
                stream.close()
                stream.open()
                continue
            text = op[1]
            raw = text.encode('utf8') if op[2] == 'b' else text
            # the size clause is claimed for writes whose size the stream
            # can know in bytes: ASCII text, or any text handed over as bytes
            # (what the daemon's redirector always does)
            if len(raw) >= mb or (op[2] != 'b' and not text.isascii()):
                small = False
            dm = {'data': raw, 'pid': 4242, 'name': 'stdout'}
            this_prefix = prefix
            if len(op) > 3 and op[3] is not None:
                # the data map may carry the time of the output itself
                dm['timestamp'] = op[3]
                if tf is not None:
                    this_prefix = '%s [%d] | ' % (
                        datetime.fromtimestamp(op[3]).strftime(tf), 4242)
            stream(dm)
            if tf is None:
                written = norm(text)
                history += written
            else:
                for ln_ in text.rstrip('\n').split('\n'):
                    exp_lines.append(ln_)
                    exp_prefix.append(this_prefix)
            # ---- observe the directory
            names = sorted(os.listdir(d))
            backups = []
            for n in names:
                if n.startswith('log.') and n[4:].isdigit():
                    backups.append(int(n[4:]))
            now1 = _read(fn + '.1') if os.path.exists(fn + '.1') else None
            if now1 != last1:
                rollovers += 1
                last1 = now1
            active = _read(fn)
            if mb:
                if len(backups) > bc or any(b > bc for b in backups):
                    viols.append(Violation(
                        'C20:backups', 'more than backup_count numbered '
                        'backups: %r (backup_count=%d)' % (backups, bc)))
                concat = b''.join(_read('%s.%d' % (fn, i))
                                  for i in sorted(backups, reverse=True))
                concat += active
                concat = norm(concat.decode(enc))
                if tf is None:
                    if not norm(history).endswith(concat):
                        viols.append(Violation(
                            'C20:tail', 'backups+active %r is not a '
                            'contiguous tail of everything written %r'
                            % (concat[-80:], history[-80:])))
                    elif not concat.endswith(written):
                        viols.append(Violation(
                            'C20:lastwrite', 'last write %r not entirely '
                            'retained (have %r)' % (written, concat[-80:])))
                    if small and len(active) >= mb:
                        viols.append(Violation(
                            'C20:size', 'active file has %d bytes with '
                            'max_bytes=%d although every write was shorter'
                            % (len(active), mb)))
            else:
                if backups:
                    viols.append(Violation(
                        'C20:append', 'backup files %r without rotation '
                        'settings' % backups))
                if tf is None and norm(active.decode(enc)) != norm(history):
                    viols.append(Violation(
                        'C20:append', 'file %r is not an exact append-only '
                        'copy of %r' % (active[-80:], history[-80:])))
                concat = norm(active.decode(enc))
            if tf is not None:
                got = concat.split('\n')
                if got and got[-1] == '':
                    got = got[:-1]
                # pre-existing content carries no prefix: only look at the
                # lines this stream wrote (the tail of length <= exp_lines)
                mine = got[-len(exp_lines):] if exp_lines else []
                pre_lines = len(got) - len(mine)
                pfx = exp_prefix[-len(mine):] if mine else []
                bad = [(ln, px) for ln, px in zip(mine, pfx)
                       if not ln.startswith(px)]
                if bad:
                    viols.append(Violation(
                        'C20:prefix', 'line without its "<time> [<pid>] | " '
                        'prefix (%r): %r' % (bad[0][1], bad[0][0])))
                else:
                    stripped = [ln[len(px):] for ln, px in zip(mine, pfx)]
                    if pre_lines == 0 or not mb:
                        want = exp_lines[-len(stripped):] if stripped else []
                        want = [norm(x) for x in want]
                        if stripped != want:
                            viols.append(Violation(
                                'C20:tail', 'prefixed lines %r are not the '
                                'tail of written lines %r' % (
                                    stripped[-5:], exp_lines[-5:])))
            if viols:
                break
        stream.close()
    finally:
        shutil.rmtree(d, ignore_errors=True)
    classes = ['rollovers>=2'] if rollovers >= 2 else []
    if case.get("pre"):
        classes.append('preexisting')
    if tf is not None:
        classes.append('time_format')
    if any(op[0] == 'reopen' for op in case["ops"]):
        classes.append('reopen')
    if not mb:
        classes.append('no_rotation')
    if lossy:
        classes.append('unrepresentable-text' if any(
            op[0] == 'w' and _lossy(op[1]) != op[1] for op in case["ops"])
            else 'latin-1-file')
    if case["max_bytes"] and any(
            op[0] == 'w' and op[2] == 'b' and not op[1].isascii() and
            len(op[1]) < case["max_bytes"] <= len(op[1].encode('utf8')) + 2
            for op in case["ops"]):
        # a write whose length in characters and in bytes fall on different
        # sides of (or right at) the bound
        classes.append('multibyte-bytes-near-bound')
    return viols, rollovers >= 2, classes


def replay(case):
    return execute(case)[0]


# ---------------------------------------------------------------------------

def _stream_text(lengths):
    """Unique, position-identifying content: abcdef... cut by lengths."""
    alpha = 'abcdefghijklmnopqrstuvwxyzABCDEFGHIJKLMNOPQRSTUVWXYZ0123456789'
    out, pos = [], 0
    for n in lengths:
        out.append(''.join(alpha[(pos + i) % len(alpha)] for i in range(n)))
        pos += n
    return out


def _exhaustive(spec, stats):
    viols = {}
    mbs = spec["max_bytes"]
    pres = [None, {"0": "XY"}, {"0": "X", "1": "YZ"}, {"1": "W", "2": "V"}]
    n = 0
    for mb in mbs:
        for bc in (1, 2, 3):
            for nw in range(1, spec["writes"] + 1):
                for lens in itertools.product(range(0, spec["maxlen"] + 1),
                                              repeat=nw):
                    for pre in pres:
                        if pre and any(int(i) > bc for i in pre):
                            continue
                        texts = _stream_text(lens)
                        case = {"max_bytes": mb, "backup_count": bc,
                                "time_format": None, "pre": pre,
                                "ops": [["w", t, "s"] for t in texts]}
                        v, nt, cl = execute(case)
                        stats.record(case, nt, cl)
                        n += 1
                        for x in v:
                            if x["signature"] in spec["known"]:
                                continue
                            cur = viols.get(x["signature"])
                            if cur is None or len(str(case)) < len(
                                    str(cur["case"])):
                                viols[x["signature"]] = {
                                    "signature": x["signature"],
                                    "message": x["message"], "case": case}
    return list(viols.values())


def _strategy():
    from hypothesis import strategies as st

    alpha = st.characters(min_codepoint=32, max_codepoint=126)
    wide = st.characters(blacklist_categories=('Cs',),
                         blacklist_characters='\r\x00')
    chars = st.one_of(alpha, st.just('\n'), wide) if UTF8 else \
        st.one_of(alpha, st.just('\n'))
    odd = st.one_of(alpha, alpha, st.just('\n'),
                    st.sampled_from(['\xe9', '\u20ac', '\u0142']))

    @st.composite
    def case(draw):
        rot = draw(st.integers(0, 9)) > 0
        mb = draw(st.integers(1, 64)) if rot else 0
        bc = draw(st.integers(1, 4)) if rot else 0
        tf = draw(st.sampled_from([None, None, None, '%H:%M', '%Y-%m-%d',
                                   '%Y/%m/%d %H.%M.%S']))
        encoding = draw(st.sampled_from([None, None, None, 'latin-1']))
        pre = {}
        if draw(st.booleans()):
            for i in range(0, bc + 1):
                if draw(st.booleans()):
                    pre[str(i)] = draw(st.text(alpha, max_size=12))
                    if tf is not None and pre[str(i)]:
                        # keep pre-existing content line-terminated so the
                        # first prefixed line does not merge with it
                        pre[str(i)] += '\n'
        ops = []
        nops = draw(st.integers(1, 14))
        for _ in range(nops):
            k = draw(st.integers(0, 11))
            if k == 0:
                ops.append(["reopen"])
                continue
            around = draw(st.sampled_from(
                [0, 1, max(mb - 1, 0), mb, mb + 1, max(mb // 2, 1), 3]))
            size = max(0, around + draw(st.integers(-1, 1)))
            size = min(size, 80)
            kind = draw(st.integers(0, 7))
            form = draw(st.sampled_from(["s", "b"]))
            if kind == 0 or (encoding and kind <= 2):
                text = draw(st.text(odd, min_size=0, max_size=max(size, 3)))
                if UTF8 and not encoding and draw(st.integers(0, 2)) == 0:
                    # what surrogateescape yields for an undecodable byte
                    pos = draw(st.integers(0, len(text)))
                    text = text[:pos] + '\udc80' + text[pos:]
                    form = "s"
            elif kind == 1:
                text = draw(st.text(chars, min_size=0, max_size=size))
            elif kind == 2:
                # multi-byte characters handed over as bytes, with a length
                # in characters around the bound: bytes and characters
                # disagree about which side of max_bytes the write is on
                text = draw(st.text(st.sampled_from(
                    ['\xe9', '\u20ac', '\u0142', 'a', '\n']),
                    min_size=size, max_size=size))
                form = "b"
            else:
                text = draw(st.text(alpha, min_size=size, max_size=size))
            wop = ["w", text, form]
            if draw(st.integers(0, 5)) == 0:
                wop.append(draw(st.sampled_from(
                    [0.0, 1600000000.25, 1234567890, 86399.999])))
            ops.append(wop)
        c = {"max_bytes": mb, "backup_count": bc, "time_format": tf,
             "pre": pre or None, "ops": ops}
        if encoding:
            c["encoding"] = encoding
        return c
    return case()


def plan(tier, seed):
    if tier == 'thorough':
        ex = [{"kind": "exhaustive", "max_bytes": [m], "writes": 5,
               "maxlen": 4} for m in range(1, 9)]
        rnd = [{"kind": "random", "seed": seed * 100 + i, "n": 6000}
               for i in range(8)]
    else:
        ex = [{"kind": "exhaustive", "max_bytes": [m], "writes": 4,
               "maxlen": 3} for m in range(1, 7)]
        rnd = [{"kind": "random", "seed": seed * 100 + i, "n": 1200}
               for i in range(8)]
    return ex + rnd


def run_shard(spec):
    stats = Stats()
    if spec["kind"] == "exhaustive":
        found = _exhaustive(spec, stats)
        res = stats.as_dict()
        res["violations"] = found
        res["exhaustive"] = True
        res["counters"]["exhaustive_cases"] = stats.evaluations
        return res
    found = hyp_search(_strategy(), execute, stats, spec["seed"], spec["n"],
                       known=spec["known"])
    res = stats.as_dict()
    res["violations"] = found
    return res


def check_floors(counters, evaluations, tier):
    msgs = []
    if counters.get('rollovers>=2', 0) < 0.1 * evaluations:
        msgs.append("fewer than 10%% of cases had >= 2 rollovers (%d/%d)" % (
            counters.get('rollovers>=2', 0), evaluations))
    if counters.get('multibyte-bytes-near-bound', 0) < 60:
        msgs.append("only %d cases with a multi-byte write near the bound" %
                    counters.get('multibyte-bytes-near-bound', 0))
    return msgs
