"""C16 - configuration files mean what the documentation says.

A configuration *model* is generated first (typed option values, env layers,
references to defined variables) and rendered to ini text with varied
spellings; the expectations are computed from the model, never from the text.
"""
import os
import shutil
import tempfile

from vfw.runner import Stats, Violation, hyp_search

PROPERTY = 'C16'
LEVEL = 'exploration'
RULE = ("case = model of an ini file: 1-3 watcher sections with options of "
        "every documented type in varied spellings (booleans as yes/true/on/1 "
        "/ no/false/off/0 in any case, ints, floats, signal names), a global "
        "[env] section, 0-3 [env:PATTERNS] sections (comma lists, "
        "wildcards), socket and plugin sections, daemon environment "
        "variables (VERIF_*), the same variable defined at several levels, "
        "references $(circus.env.X) / ((circus.env.X)) in any letter case "
        "inside string and typed options, sections in generated order.  "
        "Oracle = values computed from the model: documented type/default "
        "per option, environment = env:NAME (file order, later wins) over "
        "[env] over daemon environ (copy_env only) and nothing else, "
        "references expand to the most specialised value, parsing twice "
        "gives equal results, re-rendering in another section order too.  "
        "Non-trivial = the file has a reference or two env layers defining "
        "the same name; distinct by hash of the case.")
ASSUMPTIONS = [
    "alphabets exclude what the ini syntax itself reserves (leading/trailing "
    "blanks, ' ;', newlines) and '$' outside generated references",
    "warmup_delay is only generated as an integer (the documentation does not "
    "state its type; the parser reads it as int)",
    "the daemon environment is os.environ of the test process plus scratch "
    "VERIF_* variables",
]

BOOL_TRUE = ['yes', 'true', 'on', '1', 'True', 'YES', 'On', 'TRUE']
BOOL_FALSE = ['no', 'false', 'off', '0', 'False', 'NO', 'Off']
BOOL_OPTS_FALSE = ['shell', 'send_hup', 'stop_children', 'singleton',
                   'copy_env', 'use_sockets', 'on_demand',
                   'close_child_stdout', 'close_child_stderr']
BOOL_OPTS_TRUE = ['respawn', 'autostart', 'close_child_stdin']
DEFAULTS = {'numprocesses': 1, 'warmup_delay': 0, 'max_retry': 5,
            'graceful_timeout': 30, 'priority': 0, 'stop_signal': 15,
            'working_dir': None, 'uid': None, 'gid': None, 'args': '',
            'executable': None}


TYPED_REF_SIG = ('C16:typed-option-reference-resolved-against-global-env-'
                 'only')


def _ctor_defaults():
    import inspect
    from circus.watcher import Watcher
    sig = inspect.signature(Watcher.__init__)
    return dict((k, p.default) for k, p in sig.parameters.items()
                if p.default is not inspect.Parameter.empty)


class _Lazy(dict):
    def _load(self):
        if not dict.__len__(self):
            self.update(_ctor_defaults())

    def __contains__(self, k):
        self._load()
        return dict.__contains__(self, k)

    def __getitem__(self, k):
        self._load()
        return dict.__getitem__(self, k)


CTOR_DEFAULTS = _Lazy()


def ref(name, syntax, casing):
    body = 'circus.env.' + name
    if casing == 1:
        body = body.upper()
    elif casing == 2:
        body = body.lower()
    return '$(%s)' % body if syntax == 0 else '((%s))' % body


def render_value(v):
    """v = list of pieces: ['lit', text] | ['ref', NAME, syntax, casing]"""
    return ''.join(p[1] if p[0] == 'lit' else ref(p[1], p[2], p[3])
                   for p in v)


def expand_value(v, env):
    return ''.join(p[1] if p[0] == 'lit' else env[p[1]] for p in v)


def render(model, order=None):
    secs = []
    secs.append(('circus', ["[circus]", "check_delay = 5",
                            "endpoint = tcp://127.0.0.1:5555"]))
    if model["global_env"] is not None:
        lines = ["[env]"]
        for kk, vv in model["global_env"]:
            lines.append("%s = %s" % (kk, vv))
        secs.append(('env', lines))
    for w in model["watchers"]:
        lines = ["[watcher:%s]" % w["name"]]
        for (opt, spelled, _exp) in w["options"]:
            lines.append("%s = %s" % (opt, spelled))
        secs.append(('watcher', lines))
    for s in model["sockets"]:
        lines = ["[socket:%s]" % s["name"]]
        for kk, vv in s["items"]:
            lines.append("%s = %s" % (kk, render_value(vv)))
        secs.append(('socket', lines))
    for p in model["plugins"]:
        lines = ["[plugin:%s]" % p["name"], "use = some.mod.%s" % p["name"]]
        for kk, vv in p["items"]:
            lines.append("%s = %s" % (kk, render_value(vv)))
        secs.append(('plugin', lines))
    envs = []
    for e in model["env_sections"]:
        lines = ["[env:%s]" % e.get("sep", ',').join(e["patterns"])]
        for kk, vv in e["items"]:
            lines.append("%s = %s" % (kk, vv))
        envs.append(('envsec', lines))
    # env:NAME sections keep their relative order; everything else may move
    movable = secs[1:]
    if order:
        movable = [movable[i % len(movable)] for i in order
                   if movable][:len(movable)] if False else movable
    out = [secs[0]] + movable
    # interleave env sections at generated positions
    pos = model.get("env_positions") or []
    merged = list(out)
    for i, e in enumerate(envs):
        at = (pos[i] if i < len(pos) else len(merged)) % (len(merged) + 1)
        at = max(at, 1)
        # keep relative order among env sections
        prev = [j for j, s_ in enumerate(merged) if s_[0] == 'envsec']
        if prev:
            at = max(at, prev[-1] + 1)
        merged.insert(at, e)
    text = []
    for (_, lines) in merged:
        text.extend(lines)
        text.append("")
    return "\n".join(text)


def reorder(model, perm):
    import copy
    m = copy.deepcopy(model)
    ws = m["watchers"]
    m["watchers"] = [ws[i % len(ws)] for i in perm][:len(ws)] \
        if len(set(i % len(ws) for i in perm[:len(ws)])) == len(ws) else \
        list(reversed(ws))
    m["sockets"] = list(reversed(m["sockets"]))
    m["plugins"] = list(reversed(m["plugins"]))
    m["env_positions"] = []
    return m


def fnmatch_any(name, patterns):
    from fnmatch import fnmatch
    return any(fnmatch(name, p) for p in patterns)


def expected(model, environ):
    """-> {watcher name: {"env": {...}, "options": {opt: value}}}"""
    genv = dict(model["global_env"] or [])
    out = {}
    for w in model["watchers"]:
        name = w["name"]
        copy_env = False
        for (opt, spelled, exp) in w["options"]:
            if opt == 'copy_env':
                copy_env = exp
        env = dict(environ) if copy_env else {}
        env.update(genv)
        for e in model["env_sections"]:
            if fnmatch_any(name, e["patterns"]):
                env.update(dict(e["items"]))
        # what references see: most specialised value
        look = dict(environ)
        look.update(genv)
        for e in model["env_sections"]:
            if fnmatch_any(name, e["patterns"]):
                look.update(dict(e["items"]))
        opts = {}
        dicts = {"rlimits": {}, "hooks": {}, "stdout_stream": {},
                 "stderr_stream": {}}
        for (opt, spelled, exp) in w["options"]:
            if isinstance(exp, dict) and "dict" in exp:
                dicts[exp["dict"]][exp["key"]] = exp["value"]
                continue
            if isinstance(exp, dict) and "pieces" in exp:
                val = expand_value(exp["pieces"], look)
                if exp["type"] == 'int':
                    val = int(val)
                elif exp["type"] == 'float':
                    val = float(val)
                opts[opt] = val
            else:
                opts[opt] = exp
        for opt in BOOL_OPTS_FALSE:
            opts.setdefault(opt, False)
        for opt in BOOL_OPTS_TRUE:
            opts.setdefault(opt, True)
        for opt, dv in DEFAULTS.items():
            opts.setdefault(opt, dv)
        out[name] = {"env": env, "options": opts, "dicts": dicts}
    return out


def _typed_ref_divergence(model, environ):
    """True if some typed option refers to a variable whose most
    specialised value differs from (or does not exist in) the global layer."""
    glob = dict(environ)
    glob.update(dict(model["global_env"] or []))
    for w in model["watchers"]:
        look = dict(glob)
        for e in model["env_sections"]:
            if fnmatch_any(w["name"], e["patterns"]):
                look.update(dict(e["items"]))
        for (opt, spelled, exp) in w["options"]:
            if isinstance(exp, dict) and exp.get("type") in ('int', 'float'):
                for p in exp["pieces"]:
                    if p[0] == 'ref' and glob.get(p[1]) != look.get(p[1]):
                        return True
    return False


def execute(case):
    from circus.config import get_config
    model = case["model"]
    tmp = tempfile.mkdtemp(prefix='c16-')
    saved = {}
    for kk, vv in case["daemon_env"].items():
        saved[kk] = os.environ.get(kk)
        os.environ[kk] = vv
    viols = []
    classes = set()
    try:
        path = os.path.join(tmp, 'c.ini')
        text = render(model)
        with open(path, 'w') as f:
            f.write(text)
        environ = dict(os.environ)
        try:
            cfg = get_config(path)
        except Exception as e:
            sig = 'C16:get_config-raised:%s' % type(e).__name__
            if isinstance(e, ValueError) and _typed_ref_divergence(
                    model, environ):
                sig = TYPED_REF_SIG
            viols.append(Violation(
                sig,
                'get_config raised %r on\n%s' % (e, text)))
            return viols, True, ['raised']
        if dict(os.environ) != environ:
            changed = sorted(
                kk for kk in set(os.environ) | set(environ)
                if os.environ.get(kk) != environ.get(kk))
            viols.append(Violation(
                'C16:parse-changed-process-environment',
                'get_config changed the daemon\'s own environment: %r '
                '(a later parse, or a copy_env watcher, now sees values '
                'that are in no file)' % changed[:6]))
            for kk in changed:
                if kk in environ:
                    os.environ[kk] = environ[kk]
                else:
                    os.environ.pop(kk, None)
        cfg2 = get_config(path)
        if cfg != cfg2:
            viols.append(Violation('C16:not-deterministic',
                                   'parsing the same file twice differs'))
        want = expected(model, environ)
        got = dict((w["name"], w) for w in cfg["watchers"])
        if sorted(got) != sorted(want):
            viols.append(Violation(
                'C16:watcher-set', 'file defines %r, parsed %r' % (
                    sorted(want), sorted(got))))
        for name in sorted(set(got) & set(want)):
            g, x = got[name], want[name]
            genv = g.get("env") or {}
            if genv != x["env"]:
                extra = sorted(set(genv) - set(x["env"]))
                missing = sorted(set(x["env"]) - set(genv))
                changed = sorted(kk for kk in x["env"] if kk in genv and
                                 genv[kk] != x["env"][kk])
                kind = []
                if extra:
                    kind.append('extra:' + ','.join(
                        e if e.startswith('__') else 'var' for e in extra)[:40])
                if missing:
                    kind.append('missing')
                if changed:
                    kind.append('wrong-value')
                viols.append(Violation(
                    'C16:env:%s' % '+'.join(kind),
                    'watcher %s: environment extra %r missing %r wrong %r '
                    '(got %r, documented precedence gives %r)' % (
                        name, extra[:4], missing[:4],
                        [(kk, genv[kk], x["env"][kk]) for kk in changed[:4]],
                        dict((kk, genv.get(kk)) for kk in
                             (extra + changed)[:4]),
                        dict((kk, x["env"].get(kk)) for kk in
                             (missing + changed)[:4]))))
            for dname, dval in x["dicts"].items():
                gd = dict(g.get(dname) or {})
                if dname == 'rlimits':
                    import resource
                    dval = dict((kk, resource.RLIM_INFINITY if vv == 'INF'
                                 else vv) for kk, vv in dval.items())
                if dname == 'hooks':
                    gd = dict((kk, list(vv)) for kk, vv in gd.items())
                if gd != dval:
                    viols.append(Violation(
                        'C16:option:%s' % dname,
                        'watcher %s: %s parsed as %r, its section says %r'
                        % (name, dname, gd, dval)))
            for opt, val in x["options"].items():
                gv = g.get(opt, '<absent>')
                if gv == '<absent>' and opt in CTOR_DEFAULTS:
                    gv = CTOR_DEFAULTS[opt]   # supplied by Watcher()
                same = gv == val and type(gv) == type(val)
                if opt == 'graceful_timeout' and gv != '<absent>' and \
                        isinstance(gv, (int, float)) and \
                        not isinstance(gv, bool):
                    same = float(gv) == float(val)
                if opt == 'stop_signal' and gv != '<absent>':
                    same = int(gv) == int(val)
                if not same:
                    spec = [s for s in model["watchers"]
                            if s["name"] == name][0]
                    src = [o for o in spec["options"] if o[0] == opt]
                    typed_ref = bool(src) and isinstance(src[0][2], dict) \
                        and src[0][2].get("type") in ('int', 'float')
                    viols.append(Violation(
                        TYPED_REF_SIG if typed_ref else
                        'C16:option:%s' % opt,
                        'watcher %s: option %s written as %r parsed as %r '
                        '(%s), documented meaning %r (%s)' % (
                            name, opt, src[0][1] if src else '<default>',
                            gv, type(gv).__name__, val,
                            type(val).__name__)))
        # sockets / plugins see the global layer
        glook = dict(environ)
        glook.update(dict(model["global_env"] or []))
        gs = dict((s["name"], s) for s in cfg["sockets"])
        for s in model["sockets"]:
            for kk, vv in s["items"]:
                w_ = expand_value(vv, glook)
                if gs.get(s["name"].lower(), {}).get(kk) != w_:
                    viols.append(Violation(
                        'C16:socket-option', 'socket %s: %s parsed %r, '
                        'expected %r' % (s["name"], kk,
                                         gs.get(s["name"].lower(), {}).get(kk),
                                         w_)))
        # another section order
        path2 = os.path.join(tmp, 'd.ini')
        with open(path2, 'w') as f:
            f.write(render(reorder(model, case.get("perm") or [1, 0, 2])))
        try:
            cfg3 = get_config(path2)
            if cfg3["watchers"] != cfg["watchers"] and \
                    not model["env_sections"]:
                viols.append(Violation(
                    'C16:order-dependence',
                    'the same sections in another order parse differently'))
        except Exception:
            pass
        refs = text.count('circus.env.') + text.count('CIRCUS.ENV.')
        layers = set(kk for kk, _ in (model["global_env"] or []))
        multi = any(kk in layers or kk in case["daemon_env"]
                    for e in model["env_sections"] for kk, _ in e["items"]) \
            or any(kk in case["daemon_env"] for kk in layers)
        if refs:
            classes.add('with-reference')
        if multi:
            classes.add('multi-layer-variable')
        nontrivial = bool(refs) or multi
    finally:
        shutil.rmtree(tmp, ignore_errors=True)
        for kk, vv in saved.items():
            if vv is None:
                os.environ.pop(kk, None)
            else:
                os.environ[kk] = vv
    seen = set()
    out = []
    for v in viols:
        if v["signature"] not in seen:
            seen.add(v["signature"])
            out.append(v)
    return out, nontrivial, sorted(classes)


def replay(case):
    return execute(case)[0]


def _strategy():
    from hypothesis import strategies as st
    VARS = ['VERIF_A', 'VERIF_B', 'VERIF_C', 'VERIF_PORT', 'VERIF_N']
    sval = st.text(alphabet='abcXYZ019_./:+-', min_size=1, max_size=8)
    ival = st.integers(0, 9).map(str)
    # a variable may be defined with an empty value ("X =")
    eval_ = st.one_of(sval, sval, ival, ival, st.just(''))

    @st.composite
    def case(draw):
        daemon_env = draw(st.dictionaries(st.sampled_from(VARS),
                                          st.one_of(sval, ival), max_size=3))
        genv = None
        if draw(st.integers(0, 3)) > 0:
            genv = [[kk, draw(eval_)]
                    for kk in draw(st.lists(st.sampled_from(VARS),
                                            max_size=3, unique=True))]
        names = draw(st.lists(st.sampled_from(
            ['web', 'worker1', 'worker2', 'api', 'Web2']), min_size=1,
            max_size=3, unique=True))
        envsecs = []
        for _ in range(draw(st.integers(0, 3))):
            pats = draw(st.lists(st.sampled_from(
                names + ['worker*', 'w*', '*', 'nomatch', 'api',
                         'worker?', 'we?', '?eb2', 'w?rker*']),
                min_size=1, max_size=2, unique=True))
            items = [[kk, draw(eval_)]
                     for kk in draw(st.lists(st.sampled_from(
                         VARS + ['OTHER_X']), min_size=1, max_size=2,
                         unique=True))]
            if any(e["patterns"] == pats for e in envsecs):
                continue       # the same header twice is one ini section
            sec = {"patterns": pats, "items": items}
            if len(pats) > 1 and draw(st.booleans()):
                # blanks around the commas of a name list are not significant
                sec["sep"] = draw(st.sampled_from([', ', ' ,', ' , ']))
            envsecs.append(sec)

        def defined_for(name):
            d = dict(daemon_env)
            d.update(dict(genv or []))
            for e in envsecs:
                if fnmatch_any(name, e["patterns"]):
                    d.update(dict(e["items"]))
            return d

        def pieces(name, numeric=False, global_only=False):
            d = dict(daemon_env)
            d.update(dict(genv or []))
            if not global_only:
                d = defined_for(name)
            cands = [kk for kk, vv in d.items()
                     if (not numeric or vv.isdigit())]
            out = []
            n = draw(st.integers(1, 1 if numeric else 3))
            for _ in range(n):
                if cands and draw(st.booleans()):
                    out.append(['ref', draw(st.sampled_from(sorted(cands))),
                                draw(st.integers(0, 1)),
                                draw(st.integers(0, 2))])
                else:
                    out.append(['lit', draw(ival if numeric else sval)])
            return out

        watchers = []
        for name in names:
            opts = []
            p = pieces(name)
            if p[0][0] != 'lit':
                p = [['lit', 'prog']] + p     # never an empty command
            opts.append(['cmd', render_value(p),
                         {"pieces": p, "type": "str"}])
            chosen = draw(st.lists(st.sampled_from(
                BOOL_OPTS_FALSE + BOOL_OPTS_TRUE + [
                    'numprocesses', 'warmup_delay', 'max_retry',
                    'graceful_timeout', 'priority', 'stop_signal',
                    'working_dir', 'args', 'uid', 'freeform_x',
                    'numprocesses', 'priority', 'rlimit_nofile',
                    'rlimit_core', 'hooks.before_start',
                    'stdout_stream.class', 'stderr_stream.filename']),
                max_size=6, unique=True))
            for opt in chosen:
                if opt in BOOL_OPTS_FALSE + BOOL_OPTS_TRUE:
                    val = draw(st.booleans())
                    opts.append([opt, draw(st.sampled_from(
                        BOOL_TRUE if val else BOOL_FALSE)), val])
                elif opt in ('numprocesses', 'warmup_delay', 'max_retry',
                             'priority'):
                    p = pieces(name, numeric=True)
                    opts.append([opt, render_value(p),
                                 {"pieces": p, "type": "int"}])
                elif opt == 'graceful_timeout':
                    if draw(st.booleans()):
                        p = pieces(name, numeric=True)
                        opts.append([opt, render_value(p),
                                     {"pieces": p, "type": "float"}])
                    else:
                        v = draw(st.sampled_from(['0.5', '2.25', '10']))
                        opts.append([opt, v, float(v)])
                elif opt == 'rlimit_nofile':
                    v = draw(st.sampled_from(['500', '1024']))
                    opts.append([opt, v, {"dict": "rlimits", "key": "nofile",
                                          "value": int(v)}])
                elif opt == 'rlimit_core':
                    opts.append([opt, '', {"dict": "rlimits", "key": "core",
                                           "value": "INF"}])
                elif opt == 'hooks.before_start':
                    flag = draw(st.sampled_from([None, 'true', 'False']))
                    txt = 'some.mod.fn' + (',' + flag if flag else '')
                    opts.append([opt, txt, {
                        "dict": "hooks", "key": "before_start",
                        "value": ['some.mod.fn', flag == 'true']}])
                elif opt == 'stdout_stream.class':
                    opts.append([opt, 'QueueStream', {
                        "dict": "stdout_stream", "key": "class",
                        "value": 'QueueStream'}])
                elif opt == 'stderr_stream.filename':
                    opts.append([opt, '/tmp/x.log', {
                        "dict": "stderr_stream", "key": "filename",
                        "value": '/tmp/x.log'}])
                elif opt == 'stop_signal':
                    nm, num = draw(st.sampled_from(
                        [('TERM', 15), ('sigint', 2), ('QUIT', 3),
                         ('9', 9), ('SIGUSR1', 10), ('hup', 1)]))
                    opts.append([opt, nm, num])
                else:
                    p = pieces(name)
                    opts.append([opt, render_value(p),
                                 {"pieces": p, "type": "str"}])
            watchers.append({"name": name, "options": opts})
        sockets = []
        if draw(st.booleans()):
            p1 = pieces('', numeric=True, global_only=True)
            sockets.append({"name": "Sock1", "items": [
                ["host", [['lit', '127.0.0.1']]], ["port", p1]]})
        plugins = []
        if draw(st.integers(0, 2)) == 0:
            plugins.append({"name": "plug", "items": [
                ["param", pieces('', global_only=True)]]})
        model = {"global_env": genv, "env_sections": envsecs,
                 "watchers": watchers, "sockets": sockets,
                 "plugins": plugins,
                 "env_positions": draw(st.lists(st.integers(1, 8),
                                                max_size=3))}
        return {"model": model, "daemon_env": daemon_env,
                "perm": draw(st.permutations([0, 1, 2]))}
    return case()


def plan(tier, seed):
    n = 700 if tier == 'quick' else 15000
    return [{"seed": seed * 100 + i, "n": n} for i in range(16)]


def run_shard(spec):
    stats = Stats()
    found = hyp_search(_strategy(), execute, stats, spec["seed"], spec["n"],
                       known=spec["known"], max_rounds=8)
    res = stats.as_dict()
    res["violations"] = found
    return res


def check_floors(counters, evaluations, tier):
    msgs = []
    for key, frac in (('with-reference', 0.3), ('multi-layer-variable', 0.2)):
        if counters.get(key, 0) < frac * evaluations:
            msgs.append("%s in only %d of %d cases" % (
                key, counters.get(key, 0), evaluations))
    return msgs
