"""C10 - state-changing operations are serialised; the exclusive slot is
always freed.

Enumeration: request A (made long by a stubborn worker / warm-up delay, or
made to fail) x request B issued at every progress point of A.
Histories: sequences of >= 3 requests with random pacing.
"""
import json

from vfw.history import History, lifecycle_cases
from vfw.runner import Stats, Violation, hyp_search

PROPERTY = 'C10'
LEVEL = 'exploration'
RULE = ("enumeration: A in {stop, start, restart, reload (3 modes), incr, "
        "decr, set, rm, add+start, reloadconfig (no file; file with a watcher "
        "added / changed / removed / resized; [circus] changed), periodic "
        "check (also as the first operation: started by a client connection "
        "it starts an on-demand watcher while B arrives), incr with "
        "ill-typed nb, restart with a failing hook / exec failure} x B in "
        "the exclusive commands x every progress point of A (m timer jumps, "
        "with and without running the loop first).  histories: random "
        "request sequences with pacing, deaths, hooks and exec failures.  "
        "'A in flight' is decided from outside: A's (waiting) reply has not "
        "been sent and is still not sent after B was handled and the loop ran "
        "to idle at the same instant.  Non-trivial = B was issued strictly "
        "inside A's lifetime, or A ended in failure; distinct by hash of the "
        "case.")
ASSUMPTIONS = [
    "verdicts are relative to the simulated kernel and virtual clock",
    "daemon-level restart and quit are terminal and excluded from the "
    "'accepted again' clause",
    "a refused B must leave the kernel spawn/signal logs and the event "
    "stream untouched (synchronous snapshot around its dispatch)",
]
CONFLICT = 'arbiter is already running'
EXCLUSIVE = ('start', 'stop', 'restart', 'reload', 'incr', 'decr', 'set',
             'add', 'rm', 'reloadconfig', 'quit')
PROBE_WATCHER = {"name": "probe", "numprocesses": 0, "graceful_timeout": 0.1}


def _snapshot(w):
    return (len(w.kernel.spawn_log), len(w.kernel.signal_log),
            len(w.events))


def _is_exclusive(cmd, props, singletons):
    if cmd in ('incr', 'decr') and props.get("name") in singletons:
        return False
    return cmd in EXCLUSIVE


def execute(case):
    if case.get("ondemand_check"):
        return execute_ondemand(case)
    case = dict(case)
    case["watchers"] = list(case["watchers"]) + [dict(PROBE_WATCHER)]
    h = History(case)
    w = h.world
    k = w.kernel
    k = w.kernel
    viols = []
    classes = set()
    singletons = set(wc["name"] for wc in case["watchers"]
                     if wc.get("singleton"))
    waiting_reqs = []       # (req, cmd, props)

    def inflight_before():
        return [t for t in waiting_reqs if not t[0].answered]

    pre = {}

    def before_op(h_, i, op):
        if op[0] == 'req':
            pre[i] = (inflight_before(), _snapshot(w))
        elif op[0] == 'check':
            pre[i] = (inflight_before(), _snapshot(w), len(w.check_errors))

    def on_op(h_, i, op):
        if op[0] == 'check':
            cand, snap, nerr = pre[i]
            if cand:
                snap1 = _snapshot(w)
                # does A stay parked after the loop ran at this instant?
                w.run_idle()
                still = [t for t in cand if not t[0].answered]
                if still:
                    classes.add('check-inside-A')
                    if snap1 != snap:
                        viols.append(Violation(
                            'C10:check-had-effect-while-%s-in-flight'
                            % still[0][1],
                            'periodic check fired while %s was in flight '
                            'changed spawn/signal/event counts %r -> %r' % (
                                still[0][1], snap, snap1)))
            return
        if op[0] != 'req':
            return
        req = h_.reqs[i]
        cmd, props = op[1], op[2]
        cand, snap = pre[i]
        rep_sync = req.reply() if req.sync_replies else None
        snap1 = _snapshot(w)
        if props.get("waiting") and _is_exclusive(cmd, props, singletons):
            waiting_reqs.append((req, cmd, props))
        if not cand or not _is_exclusive(cmd, props, singletons):
            return
        if w.dead:
            return
        w.run_idle()
        still = [t for t in cand if not t[0].answered]
        if not still:
            return       # A ended in this very instant: no claim
        a_cmd = still[0][1]
        classes.add('B-inside-A')
        if rep_sync is None:
            viols.append(Violation(
                'C10:overlap-accepted:%s-during-%s:no-sync-reply' % (
                    cmd, a_cmd),
                '%s issued while %s (sent t=%.3f) was in flight was not '
                'refused synchronously' % (cmd, a_cmd, still[0][0].t)))
        elif rep_sync.get("status") != "error":
            viols.append(Violation(
                'C10:overlap-accepted:%s-during-%s' % (cmd, a_cmd),
                '%s issued while %s was in flight was answered %r' % (
                    cmd, a_cmd, {kk: rep_sync.get(kk)
                                 for kk in ('status', 'reason')})))
        else:
            reason = str(rep_sync.get("reason"))
            errno_ = rep_sync.get("errno")
            if CONFLICT in reason or 'arbiter is restarting' in reason:
                classes.add('conflict-error')
            elif errno_ in (1, 2, 3):
                classes.add('validation-error-first')
            else:
                viols.append(Violation(
                    'C10:refused-without-conflict-error:%s-during-%s' % (
                        cmd, a_cmd),
                    '%s during %s refused with %r (errno %r), neither the '
                    'conflict error nor a validation error' % (
                        cmd, a_cmd, reason[:120], errno_)))
            if snap1 != snap:
                viols.append(Violation(
                    'C10:refused-request-had-effect:%s-during-%s' % (
                        cmd, a_cmd),
                    'refused %s changed spawn/signal/event counts %r -> %r'
                    % (cmd, snap, snap1)))

    try:
        h.start()
        if case.get("alone"):
            # one waiting exclusive request, nothing else: when its reply is
            # written the operation has ended, the daemon must not go on
            # spawning or signalling on its own afterwards
            op = case["ops"][0]
            if op[0] == 'cfg':
                h.edit_config(op[1])
                op = case["ops"][1]
            req = w.request(op[1], json.loads(json.dumps(op[2])))
            w.advance_until(lambda: req.answered, w.loop.time() + 60.0)
            if req.answered and not w.dead:
                n0 = (len(k.spawn_log), len([e for e in k.signal_log]))
                t0 = w.loop.time()
                w.drain(60.0)
                n1 = (len(k.spawn_log), len([e for e in k.signal_log]))
                classes.add('alone')
                if n1 != n0:
                    hk = [e for e in h.hook_log
                          if e["hook"] == 'after_spawn' and
                          e["outcome"] != 'true']
                    viols.append(Violation(
                        'C10:operation-continues-after-its-reply:%s%s' % (
                            op[1], ':after_spawn-failure' if hk else ''),
                        '%s (waiting) was answered at t=%.3f with nothing '
                        'else in flight, yet afterwards the daemon spawned '
                        '%r and signalled %r' % (
                            op[1], t0,
                            [r["pid"] for r in k.spawn_log[n0[0]:]],
                            [(e["pid"], e["sig"], round(e["t"], 3))
                             for e in k.signal_log[n0[1]:]])))
            elif not req.answered and not w.dead:
                viols.append(Violation(
                    'C10:A-replies:%s:0' % op[1],
                    'waiting %s alone never answered' % op[1]))
        else:
            h.run(on_op, before_op)
        ok = h.settle(checks=0)
        if w.blocked:
            viols.append(Violation('C10:blocked:%s' % w.blocked_where,
                                   'event loop blocked'))
        elif not ok and not w.exited:
            viols.append(Violation('C10:no-quiescence', 'not quiescent'))
        else:
            failed = False
            for (req, cmd, props) in waiting_reqs:
                n = len(req.replies)
                if w.exited and n == 0:
                    continue
                if n != 1:
                    viols.append(Violation(
                        'C10:A-replies:%s:%d' % (cmd, n),
                        'waiting %s got %d replies' % (cmd, n)))
                rep = req.reply()
                if rep is not None and rep.get("status") == "error" and \
                        not req.sync_replies:
                    failed = True
                    classes.add('A-failed-asynchronously')
                elif rep is not None and rep.get("status") == "error":
                    classes.add('A-refused-or-failed-synchronously')
            terminal = w.exited or w.arbiter._restarting
            if not terminal:
                # the slot must be free again: exclusive probe
                pr = w.request('set', {"name": "probe", "options": {}})
                rp = pr.reply()
                if rp is None or rp.get("status") != "ok":
                    last = [t[1] for t in waiting_reqs][-1:] or ['?']
                    viols.append(Violation(
                        'C10:slot-not-freed:%s' % (
                            str((rp or {}).get("reason"))[:60]
                            .replace(' ', '-')),
                        'exclusive probe after quiescence answered %r '
                        '(loop errors %r)' % (
                            rp, [e["exc"] for e in w.loop_errors[-2:]])))
                w.drain()
    finally:
        h.close()
    seen = set()
    out = []
    for v in viols:
        if v["signature"] not in seen:
            seen.add(v["signature"])
            out.append(v)
    nontrivial = bool({'B-inside-A', 'A-failed-asynchronously',
                       'check-inside-A'} & classes)
    return out, nontrivial, sorted(classes)


def execute_ondemand(case):
    """The periodic check is the first operation: a client connection makes
    it start an on-demand watcher (3 workers, 0.3 s apart); a request that
    arrives while that start is still in progress (fewer than 3 workers
    spawned, also after the loop ran at that instant) must be refused."""
    bcmd, bprops = B_KINDS[case["b"]]
    hc = {"watchers": [
        {"name": "w0", "numprocesses": 3, "graceful_timeout": 0.3,
         "warmup_delay": 0.3, "on_demand": True, "use_sockets": True},
        {"name": "w1", "numprocesses": 1, "graceful_timeout": 0.3,
         "autostart": False},
        {"name": "w2", "numprocesses": 1, "graceful_timeout": 0.2},
        dict(PROBE_WATCHER)],
        "sockets": ["unix"], "default_beh": {"react": "die", "delay": 0.05},
        "tape": [], "ops": []}
    h = History(hc)
    w = h.world
    k = w.kernel
    viols = []
    classes = set(['ondemand-check'])
    try:
        h.start()
        h.connect(0)
        w.check()
        for _ in range(case["m"]):
            w.advance_to_next_timer()
        if case.get("idle_first"):
            w.run_idle()

        def started():
            return len([r for r in k.spawn_log if r["owner"] == 'w0' and
                        r["pid"] is not None])
        n_before = started()
        snap = _snapshot(w)
        req = w.request(bcmd, dict(bprops))
        rep = req.reply() if req.sync_replies else None
        snap1 = _snapshot(w)
        w.run_idle()
        if 0 < n_before < 3 and started() < 3:
            classes.add('B-inside-A')
            if rep is None or rep.get("status") != "error":
                viols.append(Violation(
                    'C10:overlap-accepted:%s-during-check' % bcmd,
                    '%s issued while the periodic check was still starting '
                    'the on-demand watcher (%d of 3 workers) was answered '
                    '%r' % (bcmd, n_before, rep)))
            elif CONFLICT in str(rep.get("reason")):
                classes.add('conflict-error')
                if snap1 != snap:
                    viols.append(Violation(
                        'C10:refused-request-had-effect:%s-during-check'
                        % bcmd, 'refused %s changed spawn/signal/event '
                        'counts %r -> %r' % (bcmd, snap, snap1)))
        w.drain()
        if w.blocked:
            viols.append(Violation('C10:blocked:%s' % w.blocked_where,
                                   'event loop blocked'))
        elif not w.exited and not w.arbiter._restarting:
            pr = w.request('set', {"name": "probe", "options": {}})
            rp = pr.reply()
            if rp is None or rp.get("status") != "ok":
                viols.append(Violation(
                    'C10:slot-not-freed:after-on-demand-check',
                    'exclusive probe after quiescence answered %r' % (rp,)))
    finally:
        h.close()
    return viols, 'B-inside-A' in classes, sorted(classes)


def replay(case):
    return execute(case)[0]


# ---------------------------------------------------------------------------
A_KINDS = {
    "stop": ("stop", {"name": "w0", "match": "simple"}),
    "stop-all": ("stop", {}),
    "stop-glob": ("stop", {"name": "w*"}),
    "start-glob": ("start", {"name": "w[01]"}),
    "stop-regex": ("stop", {"name": "w[0-9]+", "match": "regex"}),
    "start": ("start", {"name": "w1", "match": "simple"}),
    "restart": ("restart", {"name": "w0", "match": "simple"}),
    "restart-all": ("restart", {"name": "w*"}),
    "reload": ("reload", {"name": "w0"}),
    "reload-seq": ("reload", {"name": "w0", "sequential": True}),
    "reload-term": ("reload", {"name": "w0", "graceful": False}),
    "reload-all": ("reload", {}),
    "incr": ("incr", {"name": "w0", "nb": 2}),
    "decr": ("decr", {"name": "w0", "nb": 1}),
    "set": ("set", {"name": "w0", "options": {"numprocesses": 4}}),
    "set-cmd": ("set", {"name": "w0", "options": {"cmd": "other"}}),
    "rm": ("rm", {"name": "w0"}),
    "add-start": ("add", {"name": "n1", "cmd": "x", "start": True,
                          "options": {"numprocesses": 2,
                                      "warmup_delay": 0.2}}),
    "incr-bad-nb": ("incr", {"name": "w0", "nb": "x"}),
    "reloadconfig": ("reloadconfig", {}),
    "restart-hook": ("restart", {"name": "wh", "match": "simple"}),
    "incr-exec-fails": ("incr", {"name": "w0", "nb": 2}),
    "incr-spawn-hook-false": ("incr", {"name": "ws", "nb": 1}),
    # config-file worlds: the file is edited first, then re-read
    "reloadconfig-added": ("reloadconfig", {}),
    "reloadconfig-changed": ("reloadconfig", {}),
    "reloadconfig-removed": ("reloadconfig", {}),
    "reloadconfig-numprocesses": ("reloadconfig", {}),
    "reloadconfig-circus": ("reloadconfig", {}),
}
CONFIG_EDITS = {
    "reloadconfig-added": {"add": {"name": "n1", "numprocesses": 2,
                                   "graceful_timeout": 0.3,
                                   "warmup_delay": 1}},
    "reloadconfig-changed": {"set": ["w0", "cmd", "other --wid $(circus.wid)"]},
    "reloadconfig-removed": {"remove": "w0"},
    "reloadconfig-numprocesses": {"set": ["w0", "numprocesses", 4]},
    "reloadconfig-circus": {"circus": {"httpd_port": 8081}},
}
B_KINDS = {
    "stop": ("stop", {"name": "w0", "match": "simple"}),
    "start": ("start", {"name": "w1", "match": "simple"}),
    "stop-glob": ("stop", {"name": "w*"}),
    "restart-glob": ("restart", {"name": "w[12]"}),
    "restart": ("restart", {"name": "w2", "match": "simple"}),
    "reload": ("reload", {"name": "w2"}),
    "incr": ("incr", {"name": "w2", "nb": 1}),
    "decr": ("decr", {"name": "w2", "nb": 1}),
    "set": ("set", {"name": "w2", "options": {"numprocesses": 3}}),
    "add": ("add", {"name": "n2", "cmd": "y"}),
    "rm": ("rm", {"name": "w2"}),
    "reloadconfig": ("reloadconfig", {}),
    "quit": ("quit", {}),
    "incr-unknown": ("incr", {"name": "zz"}),
}


def _base_watchers():
    return [
        {"name": "w0", "numprocesses": 2, "graceful_timeout": 0.3,
         "warmup_delay": 0.2},
        {"name": "w1", "numprocesses": 2, "graceful_timeout": 0.3,
         "warmup_delay": 0.2, "autostart": False},
        {"name": "w2", "numprocesses": 1, "graceful_timeout": 0.2},
        {"name": "wh", "numprocesses": 1, "graceful_timeout": 0.2,
         "warmup_delay": 0.1,
         "hooks": {"after_start": ["raise", False]}},
        # two workers run; any *further* spawn is refused by the hook
        {"name": "ws", "numprocesses": 2, "graceful_timeout": 0.3,
         "hooks": {"before_spawn": ["third-false", False]}},
    ]


def _config_watchers():
    return [
        {"name": "w0", "numprocesses": 2, "graceful_timeout": 0.3,
         "warmup_delay": 1},
        {"name": "w1", "numprocesses": 2, "graceful_timeout": 0.3,
         "warmup_delay": 1, "autostart": False},
        {"name": "w2", "numprocesses": 1, "graceful_timeout": 0.2},
    ]


def _enum_case(a, b, m, idle_first, stubborn):
    acmd, aprops = A_KINDS[a]
    bcmd, bprops = B_KINDS[b]
    aprops = dict(aprops, waiting=True)
    ops = [["req", acmd, aprops]]
    if a in CONFIG_EDITS:
        ops.insert(0, ["cfg", CONFIG_EDITS[a]])
    ops += [["next"]] * m
    if idle_first:
        ops.append(["idle"])
    ops.append(["req", bcmd, dict(bprops)])
    ops.append(["drain"])
    beh = {"react": "ignore"} if stubborn else {"react": "die",
                                                "delay": 0.15}
    tape = []
    watchers = _base_watchers()
    if a == 'incr-exec-fails':
        # daemon start consumes 6 tape entries (w0 x2, w2, wh, ws x2); the
        # next exec fails and w0 gives up after one try
        tape = [dict(beh) for _ in range(6)] + [dict(beh, exec_fail=True)]
        watchers[0]["max_retry"] = 1
    if a in CONFIG_EDITS:
        return {"watchers": _config_watchers(), "default_beh": beh,
                "tape": [], "ops": ops, "config": True}
    return {"watchers": watchers, "default_beh": beh, "tape": tape,
            "ops": ops}


def _a_length(a, stubborn):
    """Number of timer jumps until A completes (fault-free probe run)."""
    c = _enum_case(a, "incr-unknown", 0, False, stubborn)
    c["ops"] = c["ops"][:2 if a in CONFIG_EDITS else 1]
    cc = dict(c)
    cc["watchers"] = list(c["watchers"]) + [dict(PROBE_WATCHER)]
    h = History(cc)
    try:
        h.start()
        h.run()
        n = 0
        req = h.world.requests[-1]
        while not req.answered and n < 60:
            if not h.world.advance_to_next_timer():
                break
            n += 1
        return n
    finally:
        h.close()


def _enumerate(spec, stats):
    found = {}
    for a, stubborn in spec["as"]:
        alone = _enum_case(a, "incr-unknown", 0, False, stubborn)
        alone["ops"] = alone["ops"][:2 if a in CONFIG_EDITS else 1]
        alone["alone"] = True
        v, nt, cl = execute(alone)
        stats.record(alone, True, cl)
        for x in v:
            if x["signature"] in spec["known"]:
                stats.known_hits[x["signature"]] = \
                    stats.known_hits.get(x["signature"], 0) + 1
            elif x["signature"] not in found:
                found[x["signature"]] = {"signature": x["signature"],
                                         "message": x["message"],
                                         "case": alone}
        length = _a_length(a, stubborn)
        stats.count('A-kinds')
        for b in sorted(B_KINDS):
            for m in range(0, length + 2):
                for idle_first in (False, True):
                    case = _enum_case(a, b, m, idle_first, stubborn)
                    v, nt, cl = execute(case)
                    stats.record(case, nt, cl)
                    for x in v:
                        if x["signature"] in spec["known"]:
                            stats.known_hits[x["signature"]] = \
                                stats.known_hits.get(x["signature"], 0) + 1
                        elif x["signature"] not in found:
                            found[x["signature"]] = {
                                "signature": x["signature"],
                                "message": x["message"], "case": case}
    return list(found.values())


def _strategy():
    from hypothesis import strategies as st
    base = lifecycle_cases(
        requests=('incr', 'decr', 'set', 'restart', 'reload', 'stop',
                  'start'),
        hooks=True, exec_fail=True, rm=True, max_watchers=3, max_ops=20,
        set_other=True, config=True, never_exec=True)

    @st.composite
    def case(draw):
        c = draw(base)
        # favour long operations: stubborn default behaviour, waiting on
        beh = draw(st.sampled_from(
            [{"react": "ignore"}, {"react": "die", "delay": 0.15},
             {"react": "die", "delay": 0.0}]))
        if not (c.get("default_beh") or {}).get("exec_fail"):
            c["default_beh"] = beh      # (else: a command that never runs)
        for op in c["ops"]:
            if op[0] == 'req' and draw(st.integers(0, 3)) > 0:
                op[2]["waiting"] = True
        # sprinkle requests that fail
        names = [wc["name"] for wc in c["watchers"]]
        for _ in range(draw(st.integers(0, 2))):
            pos = draw(st.integers(0, len(c["ops"])))
            c["ops"].insert(pos, draw(st.sampled_from([
                ["req", "incr", {"name": names[0], "nb": "x",
                                 "waiting": True}],
                ["req", "reloadconfig", {"waiting": True}],
                ["req", "add", {"name": names[0], "cmd": "dup"}],
                ["req", "set", {"name": names[0],
                                "options": {"bogus": 1}}],
                ["req", "decr", {"name": names[-1], "nb": None,
                                 "waiting": True}]])))
        return c
    return case()


def plan(tier, seed):
    kinds = [(a, s) for a in sorted(A_KINDS) for s in (False, True)]
    shards = [[] for _ in range(8)]
    for i, ks in enumerate(kinds):
        shards[i % 8].append(ks)
    specs = [{"kind": "enum", "as": s} for s in shards if s]
    specs.append({"kind": "ondemand"})
    n = 1200 if tier == 'quick' else 12000
    specs += [{"kind": "random", "seed": seed * 100 + i, "n": n}
              for i in range(8)]
    return specs


def run_shard(spec):
    stats = Stats()
    if spec["kind"] == 'ondemand':
        found = {}
        for b in sorted(B_KINDS):
            for m in range(0, 6):
                for idle_first in (False, True):
                    case = {"ondemand_check": True, "b": b, "m": m,
                            "idle_first": idle_first}
                    v, nt, cl = execute(case)
                    stats.record(case, nt, cl)
                    for x in v:
                        if x["signature"] in spec["known"]:
                            stats.known_hits[x["signature"]] = \
                                stats.known_hits.get(x["signature"], 0) + 1
                        elif x["signature"] not in found:
                            found[x["signature"]] = {
                                "signature": x["signature"],
                                "message": x["message"], "case": case}
        res = stats.as_dict()
        res["violations"] = list(found.values())
        return res
    if spec["kind"] == 'enum':
        found = _enumerate(spec, stats)
        res = stats.as_dict()
        res["violations"] = found
        return res
    found = hyp_search(_strategy(), execute, stats, spec["seed"], spec["n"],
                       known=spec["known"], max_rounds=6)
    res = stats.as_dict()
    res["violations"] = found
    return res


def check_floors(counters, evaluations, tier):
    msgs = []
    for key, frac in (('B-inside-A', 0.08), ('conflict-error', 0.06),
                      ('A-failed-asynchronously', 0.005)):
        if counters.get(key, 0) < frac * evaluations:
            msgs.append("%s in only %d of %d cases" % (
                key, counters.get(key, 0), evaluations))
    return msgs
