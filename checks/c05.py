"""C05 - the daemon never blocks; every request completes in bounded time.

Liveness is decided as safety under an explicit virtual-time bound computed
by a reference model from the configuration.
"""
from vfw.history import History, lifecycle_cases
from vfw.runner import Stats, Violation, hyp_search

PROPERTY = 'C05'
LEVEL = 'exploration'
RULE = ("histories as for C01/C02 plus non-exclusive kill / signal requests "
        "overlapping exclusive ones, hooks, exec failures (single ones, "
        "and in a sixth of the runs a command that can never be executed, "
        "with max_retry in {-1, 0, 1, 3}), stubborn workers "
        "and slow SIGKILLs; half of the runs use the real PeriodicCallback "
        "(check_delay 1 s) in virtual time.  After every op a read-only "
        "request (status, list, numprocesses, options, stats, numwatchers, "
        "get, globaloptions) is sent.  Oracles: time spent inside one loop "
        "iteration (virtual time slept, psutil's blocking cpu sample, 2 ms "
        "per failed spawn) <= 0.25 s and an iteration guard (no livelock); "
        "read-only replies are on the stream before handle_message returns "
        "and no time passes while they are served; "
        "every accepted waiting request is answered within the model's "
        "bound; an enumerated family issues one waiting request alone on 2-4 "
        "workers that ignore the stop signal and requires the answer within "
        "graceful_timeout + numprocesses x warmup_delay (start-type "
        "requests) + 0.3 s.  Non-trivial = >= 2 requests overlapped in time, or a death "
        "fell inside an operation, or a worker ignored the stop signal; "
        "distinct by hash of the case.")
ASSUMPTIONS = [
    "verdicts are relative to the simulated kernel and the virtual clock; "
    "a stall caused by the real OS is outside the claim",
    "bound per request = sum over affected watchers of 2*(np_cap+1)*"
    "(gt_max+0.2+warmup_max) + (#watchers+1)*global_warmup + 1 s, with "
    "np_cap/gt_max the largest values ever configured, requested or "
    "overridden in the history (an upper bound for correct code)",
    "blocking primitives modelled: time.sleep, psutil cpu_percent(interval), "
    "a failed fork+exec (2 ms each, counted but not added to the clock)",
]
READONLY = [('status', True), ('list', True), ('numprocesses', True),
            ('options', True), ('stats', True), ('numwatchers', False),
            ('get', True), ('globaloptions', False), ('listsockets', False),
            ('list', False), ('status', False), ('stats', False)]
STATE_CHANGING = ('incr', 'decr', 'set', 'start', 'stop', 'restart',
                  'reload', 'rm', 'kill', 'quit', 'reloadconfig')


def execute(case):
    if case.get("tight"):
        return execute_tight(case)
    h = History(case)
    w = h.world
    k = w.kernel
    viols = []
    classes = set()
    names = [wc["name"] for wc in case["watchers"]]
    gwarm = float((case.get("arbiter") or {}).get("warmup_delay", 0))
    cap = {"np": max([int(wc.get("numprocesses", 1))
                      for wc in case["watchers"]] + [1]),
           "gt": max([float(wc.get("graceful_timeout", 30.0))
                      for wc in case["watchers"]]),
           "warm": max([float(wc.get("warmup_delay", 0))
                        for wc in case["watchers"]]),
           "n": len(names), "gwarm": gwarm}
    tracked = []      # (req, cmd, deadline)
    removed = set()
    probe_i = [0]

    was_busy = [False]

    def before_op(h_, i, op):
        was_busy[0] = not w.quiescent()

    def bound():
        per = 2 * (cap["np"] + 1) * (cap["gt"] + 0.2 + cap["warm"])
        return cap["n"] * per + (cap["n"] + 1) * cap["gwarm"] + 1.0

    def on_op(h_, i, op):
        if op[0] == 'cfg':
            ed = op[1]
            if "add" in ed:
                cap["n"] += 1
                cap["np"] = max(cap["np"], int(ed["add"]["numprocesses"]))
                cap["gt"] = max(cap["gt"],
                                float(ed["add"]["graceful_timeout"]))
                cap["warm"] = max(cap["warm"],
                                  float(ed["add"].get("warmup_delay", 0)))
            elif "set" in ed and ed["set"][1] == 'numprocesses':
                cap["np"] = max(cap["np"], int(ed["set"][2]))
            elif "set" in ed and ed["set"][1] == 'graceful_timeout':
                cap["gt"] = max(cap["gt"], float(ed["set"][2]))
            elif "circus" in ed and "warmup_delay" in ed["circus"]:
                cap["gwarm"] = max(cap["gwarm"],
                                   float(ed["circus"]["warmup_delay"]))
        if op[0] == 'req':
            cmd, props = op[1], op[2]
            req = h_.reqs[i]
            rep = req.reply()
            refused = rep is not None and rep.get("status") != "ok"
            if cmd == 'incr':
                cap["np"] += props.get("nb", 1)
            if cmd == 'set':
                o = props.get("options", {})
                cap["np"] = max(cap["np"], int(o.get("numprocesses", 0)))
            if cmd == 'kill' and props.get("graceful_timeout") is not None:
                cap["gt"] = max(cap["gt"], float(props["graceful_timeout"]))
            if cmd == 'rm' and not refused:
                removed.add(props.get("name"))
            if cmd in STATE_CHANGING and props.get("waiting") and \
                    not refused:
                tracked.append([req, cmd, None])
            if was_busy[0] and cmd in STATE_CHANGING:
                classes.add('overlapping-requests')
        # deadlines are (re)computed with the caps known so far
        for t in tracked:
            if t[2] is None:
                t[2] = t[0].t + bound()
        if w.dead or w.exited:
            return
        # (b) read-only request at this very point
        cmd, needs_name = READONLY[(probe_i[0] + i) % len(READONLY)]
        probe_i[0] += 3
        props = {}
        target = None
        if needs_name:
            cands = [n for n in (h_.watcher_names() or [])]
            if not cands:
                return
            target = cands[i % len(cands)]
            props["name"] = target
        if cmd == 'get':
            props["keys"] = ["numprocesses", "graceful_timeout"]
        busy = not w.quiescent()
        t_probe = w.loop.time()
        kk = w.kernel
        saved = (kk.ncalls, kk.faults)
        kk.faults = []
        try:
            r = w.request(cmd, props)
        finally:
            kk.ncalls, kk.faults = saved
        rep = r.reply()
        if busy:
            classes.add('probe-while-busy')
        need = {('status', True): None, ('status', False): 'statuses',
                ('list', True): 'pids', ('list', False): 'watchers',
                ('numprocesses', True): 'numprocesses',
                ('options', True): 'options', ('stats', True): 'info',
                ('stats', False): 'infos',
                ('numwatchers', False): 'numwatchers',
                ('get', True): 'options',
                ('globaloptions', False): 'options',
                ('listsockets', False): 'sockets'}[(cmd, needs_name)]
        if need is None:
            good = rep is not None and rep.get("status") in (
                'active', 'stopped', 'starting', 'stopping')
        else:
            good = rep is not None and rep.get("status") == 'ok' and \
                need in rep
        if r.sync_replies != 1 or not good:
            viols.append(Violation(
                'C05:readonly-not-answered-at-once:%s' % cmd,
                'read-only request %s %r sent while busy=%s got %d '
                'synchronous replies: %r (escaped %r)' % (
                    cmd, props, busy, r.sync_replies, rep, r.escaped)))
        if w.loop.time() - t_probe > 1e-9 and not w.blocked:
            viols.append(Violation(
                'C05:readonly-request-slept:%s' % cmd,
                'serving the read-only request %s %r kept the event loop '
                'in time.sleep for %.3f s' % (cmd, props,
                                              w.loop.time() - t_probe)))
        # (c) deadlines passed?
        now = w.loop.time()
        for t in tracked:
            if not t[0].answered and now > t[2] + 1e-6 and not t[0].flag:
                t[0].flag = True
                viols.append(Violation(
                    'C05:not-answered-in-time:%s' % t[1],
                    '%s (waiting) sent at t=%.3f is still unanswered at '
                    't=%.3f; bound was %.2f s' % (t[1], t[0].t, now,
                                                  t[2] - t[0].t)))

    try:
        h.start()
        for r in w.requests:
            r.flag = False

        def on_op2(h_, i, op):
            for r in w.requests:
                if not hasattr(r, 'flag'):
                    r.flag = False
            on_op(h_, i, op)
        h.run(on_op2, before_op)
        for r in w.requests:
            if not hasattr(r, 'flag'):
                r.flag = False
        w.kernel.disarm()
        w.kernel.cancel_lifetimes()
        # let time pass up to the latest deadline
        for t in tracked:
            if t[2] is None:
                t[2] = t[0].t + bound()
        pend = [t for t in tracked if not t[0].answered]
        if pend and not w.dead:
            deadline = max(t[2] for t in pend)
            w.advance_until(lambda: all(t[0].answered for t in pend),
                            deadline)
            for t in pend:
                if not t[0].answered and not t[0].flag and not w.blocked \
                        and not w.exited:
                    viols.append(Violation(
                        'C05:not-answered-in-time:%s' % t[1],
                        '%s (waiting) sent at t=%.3f never answered within '
                        '%.2f s (now t=%.3f); loop errors %r' % (
                            t[1], t[0].t, t[2] - t[0].t, w.loop.time(),
                            [e["exc"] for e in w.loop_errors[-2:]])))
        if not w.dead and not w.exited:
            end = w.loop.time() + bound()
            q = w.advance_until(w.quiescent, end)
            if not q and not w.blocked:
                viols.append(Violation(
                    'C05:never-quiescent', 'operations still in progress '
                    '%.2f s after the last request' % bound()))
        if w.blocked:
            sig = 'C05:blocked:%s' % w.blocked_where
            # the one documented configuration that asks for unbounded
            # retries: max_retry = -1 with a command that never executes
            tail = k.spawn_log[-100:]
            if len(tail) == 100 and all(r.get("failed") for r in tail) and \
                    len(set(r["owner"] for r in tail)) == 1:
                try:
                    mr = w.arbiter.get_watcher(tail[-1]["owner"]).max_retry
                except Exception:
                    mr = None
                if mr == -1:
                    sig = 'C05:blocked:unbounded-spawn-retry:max_retry=-1'
            viols.append(Violation(
                sig,
                'more than %.2f s spent inside one loop iteration (sleeps '
                'and failed spawns at %.3f s each; in %s)' % (
                    w.BLOCK_BOUND, w.FAILED_SPAWN_COST, w.blocked_where)))
        if w.livelock:
            viols.append(Violation('C05:livelock', 'loop iteration guard '
                                   'tripped at one virtual instant'))
        if any(r["beh"].get("react") == 'ignore' for r in k.spawn_log):
            classes.add('stubborn-worker')
        if k.faults_fired or any(d["cause"] == 'external'
                                 for d in k.death_log):
            classes.add('death-injected')
        if case.get("periodic"):
            classes.add('real-periodic-callback')
        if (case.get("default_beh") or {}).get("exec_fail"):
            classes.add('command-never-executable')
            if any(wc.get("max_retry") == -1 for wc in case["watchers"]):
                classes.add('command-never-executable+max_retry-1')
        if w.max_cb_slept > 0:
            classes.add('slept-in-callback')
        if any(op[0] == 'write' for op in case["ops"]):
            classes.add('workers-write-to-captured-pipes')
    finally:
        h.close()
    seen = set()
    out = []
    for v in viols:
        if v["signature"] not in seen:
            seen.add(v["signature"])
            out.append(v)
    nontrivial = bool({'overlapping-requests', 'stubborn-worker',
                       'death-injected'} & classes)
    return out, nontrivial, sorted(classes)


def replay(case):
    return execute(case)[0]


def _strategy():
    from hypothesis import strategies as st
    base = lifecycle_cases(
        requests=('incr', 'decr', 'set', 'restart', 'reload', 'stop',
                  'start'),
        hooks=True, exec_fail=True, children=1, kill_cmd=True,
        signal_cmd=True, respawn_false=True, rm=True, max_ops=24,
        set_other=True, job_control=True, config=True, ondemand=True,
        never_exec=True, capture=True)

    @st.composite
    def case(draw):
        c = draw(base)
        if draw(st.booleans()):
            c["periodic"] = 1.0
        return c
    return case()


# ---------------------------------------------------------------------------
# "within the sum of the applicable graceful_timeout and warm-up delays plus a
# small constant": one waiting request, nothing else in flight, workers that
# ignore the stop signal.  The workers of a watcher are terminated together,
# so the request is answered after ONE graceful_timeout (plus one warm-up
# delay per worker it starts), whatever numprocesses is.
TIGHT_CMDS = {
    "stop": ("stop", {"name": "w0", "match": "simple"}, False),
    "stop-all": ("stop", {}, False),
    "rm": ("rm", {"name": "w0"}, False),
    "quit": ("quit", {}, False),
    "decr": ("decr", {"name": "w0", "nb": 1}, False),
    "decr-most": ("decr", {"name": "w0", "nb": 99}, False),
    "set0": ("set", {"name": "w0", "options": {"numprocesses": 0}}, False),
    "kill": ("kill", {"name": "w0"}, False),
    "reload": ("reload", {"name": "w0"}, True),
    "reload-term": ("reload", {"name": "w0", "graceful": False}, True),
    "restart": ("restart", {"name": "w0", "match": "simple"}, True),
}
TIGHT_CONST = 0.3


def execute_tight(case):
    cmd, props, starts = TIGHT_CMDS[case["cmd"]]
    np_, gt, warm = case["np"], case["gt"], case["warm"]
    hc = {"watchers": [{"name": "w0", "numprocesses": np_,
                        "graceful_timeout": gt, "warmup_delay": warm}],
          "default_beh": case["beh"], "tape": [], "ops": []}
    h = History(hc)
    w = h.world
    viols = []
    try:
        h.start()
        t0 = w.loop.time()
        r = w.request(cmd, dict(props, waiting=True))
        bound = gt + (np_ * warm if starts else 0.0) + TIGHT_CONST
        w.advance_until(lambda: r.answered, t0 + bound + 30.0)
        el = w.loop.time() - t0
        if w.blocked:
            viols.append(Violation('C05:blocked:%s' % w.blocked_where,
                                   'event loop blocked'))
        elif not r.answered:
            viols.append(Violation(
                'C05:not-answered-in-time:%s' % cmd,
                '%s (waiting) alone never answered within %.1f s' % (
                    cmd, bound + 30.0)))
        elif el > bound + 1e-6:
            viols.append(Violation(
                'C05:completion-exceeds-sum-of-delays:%s' % case["cmd"],
                '%s (waiting), alone, on %d workers that ignore the stop '
                'signal was answered after %.3f s; graceful_timeout %.1f + '
                '%d x warmup_delay %.1f%s + %.1f = %.3f' % (
                    cmd, np_, el, gt, np_, warm,
                    '' if starts else ' (not applicable)', TIGHT_CONST,
                    bound)))
    finally:
        h.close()
    return viols, True, ['tight', 'stubborn-worker']


def _tight_cases():
    for name in sorted(TIGHT_CMDS):
        for np_ in (2, 3, 4):
            for gt in (0.3, 1.0):
                for warm in (0, 0.2):
                    for beh in ({"react": "ignore"},
                                {"react": "ignore", "klat": 0.002}):
                        yield {"tight": True, "cmd": name, "np": np_,
                               "gt": gt, "warm": warm, "beh": beh}


def plan(tier, seed):
    n = 1200 if tier == 'quick' else 12000
    return [{"seed": seed * 100 + i, "n": n} for i in range(16)] + \
        [{"kind": "tight"}]


def run_shard(spec):
    stats = Stats()
    if spec.get("kind") == 'tight':
        found = {}
        for case in _tight_cases():
            v, nt, cl = execute_tight(case)
            stats.record(case, nt, cl)
            for x in v:
                if x["signature"] in spec["known"]:
                    stats.known_hits[x["signature"]] = \
                        stats.known_hits.get(x["signature"], 0) + 1
                elif x["signature"] not in found:
                    found[x["signature"]] = {"signature": x["signature"],
                                             "message": x["message"],
                                             "case": case}
        res = stats.as_dict()
        res["violations"] = list(found.values())
        return res
    found = hyp_search(_strategy(), execute, stats, spec["seed"], spec["n"],
                       known=spec["known"], max_rounds=6)
    res = stats.as_dict()
    res["violations"] = found
    return res


def check_floors(counters, evaluations, tier):
    msgs = []
    for key, frac in (('overlapping-requests', 0.15),
                      ('stubborn-worker', 0.15), ('probe-while-busy', 0.3),
                      ('real-periodic-callback', 0.15)):
        if counters.get(key, 0) < frac * evaluations:
            msgs.append("%s in only %d of %d cases" % (
                key, counters.get(key, 0), evaluations))
    return msgs
