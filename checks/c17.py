"""C17 - captured worker output is delivered complete, in order, once and
correctly labelled; closed pipes are dropped without spinning; no descriptor
leaks per worker generation.

SimWorld with *real* pipes: the simulated workers' stdout/stderr are real
os.pipe() pairs, the real Redirector reads them through the real selector of
the virtual-time loop, and the configured stream is a collecting object
passed through the documented {'stream': obj} form.
"""
import json
import os

from vfw.history import History
from vfw.runner import Stats, Violation, hyp_search

PROPERTY = 'C17'
LEVEL = 'exploration'
RULE = ("case = 1-4 workers x {stdout, stderr} + <= 40 ops from {write n "
        "bytes (1 .. 8192, around the 1024-byte read buffer), close a "
        "channel, loop idle / single steps, sibling death, periodic check "
        "(respawn), incr / decr, time}; plus a leak family of many "
        "spawn/kill generations; plus a family on the WatchedFileStream class "
        "(writes interleaved with the file being renamed, renamed and "
        "re-created, removed by an external tool, close / open).  Oracle: per (pid, channel) the concatenated "
        "data records equal (worker alive / closed its pipe) or are a prefix "
        "of (worker terminated or died) the bytes written, every record is "
        "tagged with that pid and channel; the loop becomes idle after every "
        "op (an fd left registered at EOF would spin); /proc/self/fd count "
        "returns to its baseline.  Non-trivial = >= 2 concurrent writers, or "
        "a chunk larger than the buffer, or a sibling restart between "
        "writes; distinct by hash of the case.")
ASSUMPTIONS = [
    "pipes, selector and os.read are real; processes, time and the kernel "
    "process table are simulated",
    "outstanding unread bytes per pipe are kept below the pipe capacity so "
    "the harness never blocks",
    "half of the cases run a second capturing watcher (descriptor numbers "
    "freed by one watcher are reused by the other); some workers ignore the "
    "stop signal",
    "for a worker that dies or is terminated only the prefix property is "
    "claimed (bytes still in the pipe may be dropped with it)",
]
CAP = 60000


class Collector(object):
    def __init__(self, chan, sink=None):
        self.chan = chan
        # (a second watcher's stream is its own object - its own open /
        # closed state - but records into the same list)
        self.records = [] if sink is None else sink.records

    def __call__(self, data):
        self.records.append((data.get('pid'), data.get('name'),
                             bytes(data.get('data'))))

    def close(self):
        pass


class FileLikeCollector(Collector):
    """A stream that, like the file streams, is closed when its watcher is
    stopped and re-opened by the next start; output handed to it while it is
    closed is lost (a real file raises ValueError)."""

    def __init__(self, chan, sink=None):
        Collector.__init__(self, chan, sink)
        self.opened = True

    def __call__(self, data):
        if not self.opened:
            raise ValueError("I/O operation on closed stream")
        Collector.__call__(self, data)

    def open(self):
        self.opened = True

    def close(self):
        self.opened = False


def pattern(k, n):
    return bytes(((k * 31 + j * 7) % 251) for j in range(n))


def execute_watched(case):
    """The configured stream is a WatchedFileStream ("allowing an external
    log rotation process to handle rotation"): what is written after the
    external tool has moved, replaced or removed the file lands in the file
    at the configured path; nothing is lost, duplicated or reordered."""
    import shutil
    import tempfile
    from circus.stream import WatchedFileStream
    tmp = tempfile.mkdtemp(prefix='c17w-')
    path = os.path.join(tmp, 'out.log')
    viols = []
    classes = set(['watched-file'])
    try:
        st_ = WatchedFileStream(filename=path)
        written = []          # chunks, in order
        gone = []             # (content when it left the path, file or None)
        since = 0             # index into written of the current file
        k_ = 0
        for ev in case["events"]:
            if ev[0] == 'w':
                k_ += 1
                txt = ('%d:' % k_) + 'x' * ev[1] + '\n'
                st_({"data": txt.encode(), "pid": 1, "name": "stdout"})
                written.append(txt)
            else:
                classes.add('external-' + ev[0])
                cur = open(path).read() if os.path.exists(path) else None
                if ev[0] in ('rename', 'rename-create'):
                    if cur is None:
                        continue
                    dst = os.path.join(tmp, 'rot%d' % len(gone))
                    os.rename(path, dst)
                    gone.append((cur, dst))
                    if ev[0] == 'rename-create':
                        open(path, 'w').close()     # logrotate "create"
                elif ev[0] == 'remove':
                    if cur is None:
                        continue
                    os.unlink(path)
                    gone.append((cur, None))
                elif ev[0] == 'reopen':
                    st_.close()
                    st_.open()
        st_.close()
        final = open(path).read() if os.path.exists(path) else ''
        for i_, (content, dst) in enumerate(gone):
            if dst is not None and open(dst).read() != content:
                viols.append(Violation(
                    'C17:watched-file:written-to-rotated-file',
                    'file moved away as %s grew from %d to %d bytes: output '
                    'written after the rotation went to the old file, not '
                    'to the configured path' % (
                        os.path.basename(dst), len(content),
                        len(open(dst).read()))))
        whole = ''.join(c for (c, _) in gone) + final
        if not viols and whole != ''.join(written):
            viols.append(Violation(
                'C17:watched-file:content',
                'rotated files + configured file hold %d bytes, %d were '
                'written (events %r)' % (len(whole), len(''.join(written)),
                                         case["events"])))
    finally:
        shutil.rmtree(tmp, ignore_errors=True)
    return viols, len(classes) > 1, sorted(classes)


def execute(case):
    if "events" in case:
        return execute_watched(case)
    out = (FileLikeCollector if case.get("out_filelike") else Collector)(
        'stdout')
    err = (FileLikeCollector if case.get("err_filelike") else Collector)(
        'stderr')
    wc = {"name": "w", "numprocesses": case["np"], "graceful_timeout": 0.2}
    has_out = case.get("stdout", True) or not case.get("stderr", True)
    if has_out:
        wc["stdout_stream"] = {"stream": out}
    if case.get("stderr", True):
        wc["stderr_stream"] = {"stream": err}
    if case.get("close_other"):
        # "log one channel, discard the other": the channel that is not
        # captured is pointed at /dev/null in the child
        if "stderr_stream" not in wc:
            wc["close_child_stderr"] = True
        if "stdout_stream" not in wc:
            wc["close_child_stdout"] = True
    watchers = [wc]
    if case.get("second"):
        # a second capturing watcher: descriptors freed by one are reused
        # by the other
        wc2 = {"name": "v", "numprocesses": 1, "graceful_timeout": 0.2,
               "stdout_stream": {"stream": type(out)('stdout', sink=out)}}
        if case.get("stderr", True):
            wc2["stderr_stream"] = {"stream": type(err)('stderr',
                                                        sink=err)}
        watchers.append(wc2)
    hc = {"watchers": watchers, "ops": [],
          "tape": [{"react": "ignore"} if x else
                   {"react": "die", "delay": 0.0}
                   for x in case.get("stubborn") or []],
          "default_beh": {"react": "die", "delay": 0.0}}
    base_fds = len(os.listdir('/proc/self/fd'))
    h = History(hc)
    w = h.world
    k = w.kernel
    viols = []
    classes = set()
    written = {}       # (pid, chan) -> bytearray
    closed = set()
    seq = [0]
    writers = set()
    # what circus does in the child between fork and exec is run in a real
    # forked child (vfw/kernel.py): the capture pipes must still be the
    # child's descriptors 1 / 2 afterwards
    k.preexec_probe = dict
    std_checked = [0]

    def check_child_std():
        for rec in k.spawn_log[std_checked[0]:]:
            std = rec.get("child_std")
            if rec.get("failed") or not isinstance(std, dict):
                continue
            for fd, chan in (("1", "stdout"), ("2", "stderr")):
                if rec.get(chan + "_pipe") and std.get(fd) != 'pipe':
                    viols.append(Violation(
                        'C17:capture-pipe-replaced-before-exec:%s' % chan,
                        'worker of %s: %s is captured, but after the '
                        'pre-exec step the child\'s descriptor %s is %r, '
                        'not the capture pipe: nothing it writes can reach '
                        'the stream' % (rec["owner"], chan, fd,
                                        std.get(fd))))
        std_checked[0] = len(k.spawn_log)
    try:
        fds0 = len(os.listdir('/proc/self/fd'))
        h.start()
        check_child_std()
        # (the pre-exec step depends on the configuration only: the first
        # generation of every watcher is enough, forking is slow)
        k.preexec_probe = None

        def unread(pid, ch):
            got = sum(len(d) for (p, n, d) in
                      (out.records if ch == 'stdout' else err.records)
                      if p == pid and n == ch)
            return len(written.get((pid, ch), b'')) - got

        def compare(final):
            for coll in (out, err):
                for (p, n, d) in coll.records:
                    if n != coll.chan:
                        viols.append(Violation(
                            'C17:wrong-channel-label',
                            'record labelled %r arrived on the %s stream'
                            % (n, coll.chan)))
                    if p not in k.procs:
                        viols.append(Violation(
                            'C17:unknown-pid-label',
                            'record labelled with pid %r' % p))
            for (pid, ch), data in written.items():
                coll = out if ch == 'stdout' else err
                got = b''.join(d for (p, n, d) in coll.records
                               if p == pid and n == ch)
                alive = k.state(pid) == 'running' and \
                    pid in w.eff_live()
                want = bytes(data)
                if got == want:
                    continue
                floor = drained.get((pid, ch), 0)
                if want.startswith(got) and len(got) >= floor and \
                        (not final or not alive):
                    continue
                kind = 'incomplete' if want.startswith(got) else (
                    'duplicated-or-reordered')
                viols.append(Violation(
                    'C17:%s:%s' % (kind, 'alive' if alive else 'dead'),
                    'worker %d %s: wrote %d bytes, stream received %d '
                    '(first difference at %d)' % (
                        pid, ch, len(want), len(got),
                        next((i for i in range(min(len(got), len(want)))
                              if got[i] != want[i]),
                             min(len(got), len(want))))))
            # bytes attributed to a pid/channel that never wrote them
            for coll in (out, err):
                tot = {}
                for (p, n, d) in coll.records:
                    tot[(p, n)] = tot.get((p, n), 0) + len(d)
                for key, nbytes in tot.items():
                    if nbytes > len(written.get(key, b'')):
                        viols.append(Violation(
                            'C17:mislabelled-data',
                            '%d bytes labelled %r, that worker wrote %d' % (
                                nbytes, key, len(written.get(key, b'')))))

        closed_while_alive = set()
        drained = {}     # (pid, chan) -> bytes written when the loop was
                         # last idle while the worker was alive

        def mark_drained():
            if w.livelock or w.dead:
                return
            for (pid, ch), data in written.items():
                if k.state(pid) == 'running':
                    drained[(pid, ch)] = len(data)

        def daemon_fds():
            return len(os.listdir('/proc/self/fd')) - sum(
                len(p.wfd) for p in k.procs.values())

        for i, op in enumerate(case["ops"]):
            if viols or w.dead:
                break
            kind = op[0]
            live = w.eff_live()
            if kind == 'w' and live:
                pid = live[op[1] % len(live)]
                ch = op[2]
                if ch == 'stderr' and not case.get("stderr", True):
                    ch = 'stdout'
                if ch == 'stdout' and not has_out:
                    ch = 'stderr'
                fd = k.procs[pid].wfd.get(ch)
                if fd is None or (pid, ch) in closed:
                    continue
                n = op[3]
                if unread(pid, ch) + n > CAP:
                    continue
                data = pattern(seq[0], n)
                seq[0] += 1
                os.write(fd, data)
                written.setdefault((pid, ch), bytearray()).extend(data)
                writers.add(pid)
                if n > 1024:
                    classes.add('chunk-larger-than-buffer')
            elif kind == 'close' and live:
                pid = live[op[1] % len(live)]
                ch = op[2]
                fd = k.procs[pid].wfd.pop(ch, None)
                if fd is not None:
                    os.close(fd)
                    closed.add((pid, ch))
                    closed_while_alive.add((pid, ch))
                    classes.add('worker-closed-pipe')
            elif kind == 'idle':
                w.run_idle()
                mark_drained()
            elif kind == 'step':
                w.step(op[1])
            elif kind == 'exit' and live:
                k.external_death(live[op[1] % len(live)], ['exit', 0])
                classes.add('sibling-death')
            elif kind == 'check':
                w.run_idle()
                mark_drained()
                w.check()
                w.run_idle()
            elif kind == 'req':
                if op[1] == 'set' and (case.get("out_filelike") or
                                       case.get("err_filelike")):
                    # changing a stream option re-creates the stream from its
                    # configuration and closes the old one; these streams
                    # are configured as ready-made objects, so old and new
                    # would be one object: not a meaningful combination
                    continue
                w.request(op[1], json.loads(json.dumps(op[2])))
                classes.add('sibling-restart')
                if op[1] == 'set':
                    classes.add('stream-option-set')
                if op[1] in ('restart', 'stop', 'start'):
                    w.drain(30.0)
            elif kind == 'adv':
                w.advance(op[1])
            if w.livelock:
                viols.append(Violation(
                    'C17:loop-spins', 'the loop never became idle after op '
                    '%r (an fd stays readable: EOF not unregistered?)'
                    % (op,)))
                break
            compare(False)
            check_child_std()
        if not viols and not w.dead:
            w.run_idle()
            mark_drained()
            w.drain(30.0)
            w.run_idle()
            if w.livelock:
                viols.append(Violation('C17:loop-spins',
                                       'loop never idle at the end'))
            else:
                compare(True)
        if w.blocked:
            viols.append(Violation('C17:blocked:%s' % w.blocked_where,
                                   'event loop blocked'))
        # leak family: generations of workers come and go
        if not viols and case.get("generations") and not w.dead:
            w.request('set', {"name": "w", "options": {"numprocesses": 2},
                              "waiting": True})
            w.drain()
            w.request('start', {"name": "w", "match": "simple",
                                "waiting": True})
            w.drain()
            w.full_check()
            baseline_ok = len(w.eff_live('w')) == 2
            n_before = len(w.eff_live())
            fds_before = daemon_fds()
            for g in range(case["generations"]):
                for pid in w.eff_live('w'):
                    k.external_death(pid, ['signal', 9])
                w.full_check()
                if g % 3 == 0:
                    w.request('restart', {"name": "w", "match": "simple",
                                          "waiting": True})
                    w.drain()
            w.full_check()
            fds_after = daemon_fds()
            classes.add('generations')
            if baseline_ok and len(w.eff_live('w')) == 2 and \
                    len(w.eff_live()) == n_before and \
                    fds_after > fds_before:
                viols.append(Violation(
                    'C17:fd-leak', 'open descriptors went from %d to %d over '
                    '%d worker generations' % (fds_before, fds_after,
                                               case["generations"])))
        if len(writers) >= 2:
            classes.add('concurrent-writers')
    finally:
        h.close()
    nontrivial = bool({'concurrent-writers', 'chunk-larger-than-buffer',
                       'sibling-restart', 'sibling-death'} & classes)
    return viols, nontrivial, sorted(classes)


def replay(case):
    return execute(case)[0]


def _strategy():
    from hypothesis import strategies as st
    size = st.one_of(st.integers(1, 40),
                     st.sampled_from([1023, 1024, 1025, 2048, 2049, 3000,
                                      4096, 8192, 1, 5000]))
    ch = st.sampled_from(['stdout', 'stderr'])
    op = st.one_of(
        st.tuples(st.just('w'), st.integers(0, 3), ch, size).map(list),
        st.tuples(st.just('w'), st.integers(0, 3), ch, size).map(list),
        st.tuples(st.just('w'), st.integers(0, 3), ch, size).map(list),
        st.tuples(st.just('close'), st.integers(0, 3), ch).map(list),
        st.just(['idle']), st.just(['idle']),
        st.tuples(st.just('step'), st.integers(1, 3)).map(list),
        st.tuples(st.just('exit'), st.integers(0, 3)).map(list),
        st.just(['check']),
        st.tuples(st.just('req'), st.sampled_from(['incr', 'decr']),
                  st.just({"name": "w", "nb": 1})).map(list),
        st.tuples(st.just('req'), st.just('set'), st.sampled_from(
            [{"name": "w", "options": {"stderr_stream.note": "x"}},
             {"name": "w", "options": {"stdout_stream.note": "y"}}])
                  ).map(list),
        st.tuples(st.just('req'), st.just('restart'),
                  st.just({"name": "w", "match": "simple"})).map(list),
        st.tuples(st.just('adv'), st.sampled_from([0.05, 0.3])).map(list))
    second = st.one_of(
        st.tuples(st.just('req'), st.sampled_from(['incr', 'decr', 'kill']),
                  st.just({"name": "v"})).map(list),
        st.tuples(st.just('req'), st.just('restart'),
                  st.just({"name": "v", "match": "simple"})).map(list),
        st.tuples(st.just('req'), st.just('kill'),
                  st.just({"name": "w"})).map(list))
    stopstart = st.sampled_from(
        [['req', 'stop', {"name": "w", "match": "simple"}],
         ['req', 'start', {"name": "w", "match": "simple"}],
         ['req', 'start', {"name": "w", "match": "simple"}]])
    op = st.one_of(op, op, op, op, second, stopstart)
    return st.fixed_dictionaries({
        "second": st.booleans(),
        "out_filelike": st.booleans(),
        "err_filelike": st.booleans(),
        "stubborn": st.lists(st.booleans(), max_size=6),
        "np": st.integers(1, 4),
        "stderr": st.sampled_from([True, True, False]),
        "stdout": st.sampled_from([True, True, True, False]),
        "ops": st.lists(op, min_size=1, max_size=40),
        "generations": st.sampled_from([0, 0, 0, 6, 25])},
        optional={"close_other": st.booleans()})


def _watched_strategy():
    from hypothesis import strategies as st
    ev = st.one_of(
        st.tuples(st.just('w'), st.integers(0, 40)).map(list),
        st.tuples(st.just('w'), st.integers(0, 40)).map(list),
        st.sampled_from([['rename'], ['rename-create'], ['rename-create'],
                         ['remove'], ['reopen']]))
    return st.fixed_dictionaries(
        {"events": st.lists(ev, min_size=1, max_size=14)})


def plan(tier, seed):
    n = 1500 if tier == 'quick' else 10000
    return [{"seed": seed * 100 + i, "n": n} for i in range(15)] + \
        [{"seed": seed * 100 + 15, "n": n * 2, "watched": True}]


def run_shard(spec):
    stats = Stats()
    found = hyp_search(_watched_strategy() if spec.get("watched")
                       else _strategy(), execute, stats, spec["seed"],
                       spec["n"], known=spec["known"], max_rounds=6)
    res = stats.as_dict()
    res["violations"] = found
    return res


def check_floors(counters, evaluations, tier):
    msgs = []
    # (fractions of the pipe histories; the watched-file family has none of
    # these classes)
    evaluations = evaluations - counters.get('watched-file', 0)
    for key, frac in (('concurrent-writers', 0.06),
                      ('chunk-larger-than-buffer', 0.08),
                      ('worker-closed-pipe', 0.08), ('generations', 0.12)):
        if counters.get(key, 0) < frac * evaluations:
            msgs.append("%s in only %d of %d cases" % (
                key, counters.get(key, 0), evaluations))
    if counters.get('external-rename-create', 0) < 300:
        msgs.append("only %d watched-file cases with a rename + re-create" %
                    counters.get('external-rename-create', 0))
    return msgs
