"""C15 - the watcher directory stays coherent; names unique ignoring case.

Model-based: a dict lower-cased name -> canonical name runs beside the real
daemon; after every request the directory commands are compared with each
other and with the model.
"""
import json
import os
import tempfile

from vfw.history import History
from vfw.runner import Stats, Violation, hyp_search

PROPERTY = 'C15'
LEVEL = 'exploration'
RULE = ("case = <= 25 requests from {add (start on/off), rm (nostop on/off), "
        "start, stop, status, numprocesses, options} over the name pool "
        "{a, A, web, WEB, Web, '', ' x', 'a b', u-umlaut, '*', 'a*'} in any "
        "letter case (match=simple, glob or anchored regex), optionally on a daemon loaded from a "
        "configuration file with reloadconfig after edits that add / remove "
        "/ re-case sections.  After every request the daemon is drained and "
        "list, numwatchers, status (all) and stats (all) are compared with "
        "each other and with the model.  Non-trivial = the history contains "
        "a case-variant collision or a remove-then-reuse; distinct by hash "
        "of the case.")
ASSUMPTIONS = [
    "the reference model is a dict lower-cased name -> canonical name; "
    "`list` reports lower-cased names (as implemented), so sets are compared "
    "ignoring case",
    "verdicts are relative to the simulated kernel",
]
POOL = ["a", "A", "a", "A", "web", "WEB", "Web", "web", "", " x", "a b",
        "ü", "Ü", "*", "a*", "b",
        # letters whose case folding differs from their lower case
        "ß", "\u1e9e", "\u03a3", "\u03c3", "\u03c2",
        # any JSON string can arrive: a lone surrogate (\\ud800 escape),
        # which no encoding can put on the event channel
        "x\ud800",
        # the names of the daemon's own helper watchers (statsd / httpd)
        "circusd-stats", "circushttpd"]


RESERVED = ('circusd-stats', 'circushttpd')


def _encodable(name):
    try:
        name.encode('utf8')
        return True
    except UnicodeEncodeError:
        return False


def _ini(names):
    lines = ["[circus]", "check_delay = -1",
             "endpoint = tcp://127.0.0.1:1",
             "pubsub_endpoint = tcp://127.0.0.1:2", ""]
    for n in names:
        lines += ["[watcher:%s]" % n, "cmd = prog-%s" % n.lower(),
                  "numprocesses = 1", "graceful_timeout = 0.2", ""]
    return "\n".join(lines)


def directory(h):
    w = h.world
    ls = w.probe('list', {})
    nw = w.probe('numwatchers', {})
    st = w.probe('status', {})
    ss = w.probe('stats', {})
    return {
        "list": sorted((ls or {}).get("watchers") or []),
        "numwatchers": (nw or {}).get("numwatchers"),
        "statuses": sorted(((st or {}).get("statuses") or {}).keys()),
        "stats": sorted(((ss or {}).get("infos") or {}).keys()),
    }


def execute(case):
    tmp = None
    cfg = None
    if case.get("config") is not None:
        tmp = tempfile.mkdtemp(prefix='c15-')
        cfg = os.path.join(tmp, 'circus.ini')
        with open(cfg, 'w') as f:
            f.write(_ini(case["config"]))
        from vfw.world import SimWorld
        hc = {"watchers": [], "ops": [], "tape": []}
    else:
        hc = {"watchers": [{"name": n, "numprocesses": 1,
                            "graceful_timeout": 0.2}
                           for n in case.get("initial", [])],
              "ops": [], "tape": [],
              "default_beh": case.get("default_beh")}
    viols = []
    classes = set()
    h = None
    try:
        if cfg is not None:
            h = History.__new__(History)
            h.case = hc
            h.hook_log = []
            h.reqs = {}
            h.world = SimWorld(config_file=cfg)
            h.started = False
        else:
            h = History(hc)
        w = h.world
        k = w.kernel
        h.start()
        model = {}
        init = case["config"] if cfg is not None else case.get("initial", [])
        for n in init:
            model[n.lower()] = n
        removed_nostop = set()
        ever_removed = set()

        def coherent(where):
            d = directory(h)
            lows = [sorted(x.lower() for x in d[kk])
                    for kk in ('list', 'statuses', 'stats')]
            want = sorted(model)
            dup = [x for x in d["statuses"]
                   if [y.lower() for y in d["statuses"]].count(x.lower()) > 1]
            if dup:
                viols.append(Violation(
                    'C15:names-not-unique-ignoring-case',
                    'status lists %r (%s)' % (d["statuses"], where)))
            if not (lows[0] == lows[1] == lows[2]) or \
                    d["numwatchers"] != len(d["statuses"]) or \
                    d["numwatchers"] != len(d["list"]):
                viols.append(Violation(
                    'C15:directory-commands-disagree:%s' % where.split(' ')[0],
                    'list=%r numwatchers=%r status=%r stats=%r (%s)' % (
                        d["list"], d["numwatchers"], d["statuses"],
                        d["stats"], where)))
            elif lows[1] != want:
                viols.append(Violation(
                    'C15:directory-differs-from-model:%s' % where.split(' ')[0],
                    'daemon has %r, the accepted requests imply %r (%s)' % (
                        d["statuses"], [model[x] for x in want], where)))

        coherent('initially')
        for i, op in enumerate(case["ops"]):
            if viols or w.dead or w.exited:
                break
            kind = op[0]
            name = op[1] if len(op) > 1 else None
            where = '%s %r' % (kind, name)
            if kind == 'add':
                r = w.request('add', {"name": name, "cmd": "prog",
                                      "start": op[2],
                                      "options": {"numprocesses": 1,
                                                  "graceful_timeout": 0.2}})
                w.drain()
                rep = r.reply() or {}
                okr = rep.get("status") == "ok"
                if name.lower() in model:
                    classes.add('case-variant-collision'
                                if model[name.lower()] != name
                                else 'duplicate-add')
                    if okr:
                        viols.append(Violation(
                            'C15:duplicate-name-accepted',
                            'add %r answered ok although %r exists' % (
                                name, model[name.lower()])))
                else:
                    if okr:
                        model[name.lower()] = name
                        if name.lower() in ever_removed:
                            classes.add('remove-then-reuse')
                        removed_nostop.discard(name.lower())
                        d = directory(h)
                        if name.lower() not in d["list"]:
                            viols.append(Violation(
                                'C15:add-ok-but-absent:%s' % (
                                    'empty-name' if name == '' else 'other'),
                                'add %r answered ok but list is %r' % (
                                    name, d["list"])))
                            model.pop(name.lower(), None)
                    elif name != '' and _encodable(name):
                        # (a name no encoding can publish may be refused -
                        # but then it must be absent: see coherent())
                        viols.append(Violation(
                            'C15:fresh-name-refused',
                            'add of unused name %r refused: %r' % (
                                name, rep.get("reason"))))
            elif kind == 'rm':
                pids = h.pids(name) or []
                waiting = (len(op) < 4 or op[3])
                r = w.request('rm', {"name": name, "nostop": op[2],
                                     "waiting": waiting})
                if not waiting and name.lower() in model and \
                        (r.reply() or {}).get("status") == "ok":
                    # the directory must be coherent *while* the removed
                    # watcher's workers are still being stopped
                    classes.add('directory-read-during-rm')
                    saved = model.pop(name.lower())
                    w.step(2)
                    coherent('during-rm %r' % name)
                    model[name.lower()] = saved
                w.drain()
                rep = r.reply() or {}
                if name.lower() in model:
                    canon = model[name.lower()]
                    if rep.get("status") != "ok":
                        viols.append(Violation(
                            'C15:rm-refused', 'rm %r (exists as %r) refused:'
                            ' %r' % (name, canon, rep.get("reason"))))
                    else:
                        del model[name.lower()]
                        ever_removed.add(name.lower())
                        if op[2]:
                            removed_nostop.add(name.lower())
                        else:
                            left = [p for p in pids
                                    if p in w.eff_live()]
                            if left:
                                viols.append(Violation(
                                    'C15:rm-left-workers',
                                    'rm %r without nostop left %r running'
                                    % (name, left)))
                elif rep.get("status") == "ok":
                    viols.append(Violation(
                        'C15:rm-unknown-ok', 'rm of unknown %r answered ok'
                        % name))
            elif kind in ('start', 'stop'):
                mode = op[2] if len(op) > 2 else 'simple'
                if not name.isalnum():
                    mode = 'simple'      # pattern characters: keep it exact
                pattern = name + '$' if mode == 'regex' else name
                r = w.request(kind, {"name": pattern, "match": mode,
                                     "waiting": True})
                if mode != 'simple':
                    classes.add('request-by-pattern')
                w.drain()
                rep = r.reply() or {}
                exists = name.lower() in model
                if exists != (rep.get("status") == "ok"):
                    viols.append(Violation(
                        'C15:%s-by-variant:%s' % (
                            kind, 'refused' if exists else 'accepted'),
                        '%s %r: watcher %s, reply %r' % (
                            kind, name, 'exists as %r' % model.get(
                                name.lower()) if exists else 'unknown',
                            {x: rep.get(x) for x in ('status', 'reason')})))
                elif exists:
                    want = 'active' if kind == 'start' else 'stopped'
                    got = h.status(model[name.lower()])
                    if got != want:
                        viols.append(Violation(
                            'C15:variant-reached-other-watcher',
                            '%s %r ok, but canonical %r reports %r' % (
                                kind, name, model[name.lower()], got)))
                    if model[name.lower()] != name:
                        classes.add('request-by-case-variant')
            elif kind == 'status':
                a = w.probe('status', {"name": name})
                exists = name.lower() in model
                if exists:
                    b = w.probe('status', {"name": model[name.lower()]})
                    if (a or {}).get("status") != (b or {}).get("status") \
                            or (a or {}).get("status") not in (
                                'active', 'stopped'):
                        viols.append(Violation(
                            'C15:status-by-variant', 'status %r -> %r, '
                            'canonical -> %r' % (name, a, b)))
                elif (a or {}).get("status") != "error":
                    viols.append(Violation(
                        'C15:status-unknown-ok', 'status of unknown %r -> %r'
                        % (name, a)))
            elif kind == 'reloadconfig':
                names = op[1]
                with open(cfg, 'w') as f:
                    f.write(_ini(names))
                r = w.request('reloadconfig', {"waiting": True})
                w.drain()
                rep = r.reply() or {}
                lows = [n.lower() for n in names]
                if len(set(lows)) != len(lows):
                    classes.add('config-with-case-duplicates')
                if rep.get("status") == "ok":
                    if len(set(lows)) == len(lows):
                        # (watchers bearing the names of the daemon's own
                        # helpers are outside the file's reach: reloadconfig
                        # leaves them alone)
                        kept = dict((kk, vv) for kk, vv in model.items()
                                    if vv in RESERVED)
                        model.clear()
                        model.update(kept)
                        for n in names:
                            model[n.lower()] = n
                    else:
                        # duplicates ignoring case: whatever the daemon
                        # decides, it must stay coherent and unique
                        d = directory(h)
                        model.clear()
                        for n in d["statuses"]:
                            model[n.lower()] = n
                where = 'reloadconfig %r' % (names,)
            if not viols and not w.dead and not w.exited:
                coherent(where)
        if w.blocked:
            viols.append(Violation('C15:blocked:%s' % w.blocked_where,
                                   'event loop blocked'))
    finally:
        if h is not None:
            h.close()
        if tmp:
            import shutil
            shutil.rmtree(tmp, ignore_errors=True)
    nontrivial = bool({'case-variant-collision', 'remove-then-reuse',
                       'config-with-case-duplicates'} & classes)
    return viols, nontrivial, sorted(classes)


def replay(case):
    return execute(case)[0]


def _strategy():
    from hypothesis import strategies as st
    name = st.sampled_from(POOL)
    cfgnames = st.lists(st.sampled_from(["a", "A", "web", "WEB", "b", "Web"]),
                        max_size=4, unique=True)
    op = st.one_of(
        st.tuples(st.just('add'), name, st.booleans()).map(list),
        st.tuples(st.just('add'), name, st.booleans()).map(list),
        st.tuples(st.just('rm'), name, st.booleans(),
                  st.booleans()).map(list),
        st.tuples(st.just('start'), name, st.sampled_from(
            ['simple', 'glob', 'regex'])).map(list),
        st.tuples(st.just('stop'), name, st.sampled_from(
            ['simple', 'glob', 'regex'])).map(list),
        st.tuples(st.just('status'), name).map(list))

    @st.composite
    def case(draw):
        if draw(st.integers(0, 3)) == 0:
            base = draw(st.lists(st.sampled_from(["a", "web", "b", "WEB"]),
                                 max_size=3,
                                 unique_by=lambda s: s.lower()))
            ops = draw(st.lists(st.one_of(
                op, st.tuples(st.just('reloadconfig'), cfgnames).map(list)),
                min_size=1, max_size=14))
            return {"config": base, "ops": ops}
        initial = draw(st.lists(st.sampled_from(["a", "web", "b"]),
                                max_size=2, unique=True))
        ops = draw(st.lists(op, min_size=1, max_size=25))
        return {"initial": initial, "ops": ops,
                "default_beh": draw(st.sampled_from(
                    [None, {"react": "die", "delay": 0.15},
                     {"react": "ignore"}]))}
    return case()


def plan(tier, seed):
    n = 1500 if tier == 'quick' else 10000
    return [{"seed": seed * 100 + i, "n": n} for i in range(16)]


def run_shard(spec):
    stats = Stats()
    found = hyp_search(_strategy(), execute, stats, spec["seed"], spec["n"],
                       known=spec["known"], max_rounds=6)
    res = stats.as_dict()
    res["violations"] = found
    return res


def check_floors(counters, evaluations, tier):
    msgs = []
    for key, frac in (('case-variant-collision', 0.06),
                      ('remove-then-reuse', 0.02),
                      ('request-by-case-variant', 0.06)):
        if counters.get(key, 0) < frac * evaluations:
            msgs.append("%s in only %d of %d cases" % (
                key, counters.get(key, 0), evaluations))
    return msgs
