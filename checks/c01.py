"""C01 - process count converges to numprocesses, generations are replaced,
the converged state is a fixpoint.

SimWorld histories (real Arbiter/Watcher on the virtual clock over the
simulated kernel).  Reference model: target numprocesses per watcher from
the *accepted* requests.  Observations: control-protocol replies and the
kernel's process table / spawn / signal logs.
"""
from vfw.history import (History, behaviours, pacing_ops, death_ops)
from vfw.runner import Stats, Violation, hyp_search

PROPERTY = 'C01'
LEVEL = 'exploration'
RULE = ("case = 1-2 watcher configurations (numprocesses 0-4, singleton, "
        "warmup_delay, graceful_timeout, send_hup) + a behaviour tape "
        "(obeys the stop signal after a delay on either side of the "
        "timeout / ignores it / dies by itself) + <= 30 ops drawn from "
        "{worker exit with status, external SIGKILL, death at the k-th next "
        "kernel call, incr, decr, set numprocesses, restart, reload "
        "(graceful / sequential / terminate), periodic check, loop step, "
        "time advance}.  Non-trivial = the history contains a death or an "
        "accepted count-changing request AND the settle phase started away "
        "from the target or with work in flight; distinct by hash of the "
        "whole case.  No history asks for a stop: a watcher that is not "
        "active at the end, with a live count off its target, is a "
        "violation too.")
ASSUMPTIONS = [
    "verdicts are relative to the simulated kernel (vfw/kernel.py), itself "
    "compared with real processes by vfw/conformance.py",
    "the random jitter added to max_age is pinned by replacing "
    "circus.watcher.randint: to its lower bound, or (case field randint = "
    "'hi') to its upper bound",
    "bounded number of checks = 3 complete periodic checks after the last "
    "injected event",
]

SETTLE_CHECKS = 3
EPS = 1e-6


class Model(object):
    def __init__(self, case):
        self.np = {}
        self.singleton = {}
        self.send_hup = {}
        self.changed = False
        self.fresh_after = {}      # name -> time of last completed restart
        for wc in case["watchers"]:
            self.np[wc["name"]] = int(wc.get("numprocesses", 1))
            self.singleton[wc["name"]] = bool(wc.get("singleton"))
            self.send_hup[wc["name"]] = bool(wc.get("send_hup"))


def _accepted(req):
    rep = req.reply()
    return rep is not None and rep.get("status") == "ok"


def execute(case):
    h = History(case)
    if case.get("randint") == 'hi':
        import circus.watcher as _cw
        _cw.randint = lambda a, b: b      # (restored when the world closes)
    viols = []
    classes = []
    w = h.world
    model = Model(case)
    pending = []     # (req, command, props) whose acceptance is not known yet
    deaths = [0]
    stale = set()
    try:
        h.start()

        def apply_accepted(req, cmd, props):
            """Requests refused at dispatch get their error reply
            synchronously; everything else has been accepted and its
            numprocesses assignment has already been made by the daemon."""
            rep = req.reply()
            if rep is not None and rep.get("status") != "ok":
                return
            name = props.get("name")
            if cmd == 'incr' and not model.singleton[name]:
                model.np[name] += props.get("nb", 1)
                model.changed = True
            elif cmd == 'decr' and not model.singleton[name]:
                model.np[name] = max(0, model.np[name] - props.get("nb", 1))
                model.changed = True
            elif cmd == 'set':
                model.np[name] = max(0, props["options"]["numprocesses"])
                model.changed = True
            elif cmd in ('restart', 'reload'):
                model.changed = True
                if props.get("waiting"):
                    targets = [name] if name in model.np else list(model.np)
                    for n_ in targets:
                        pending.append((req, cmd, dict(props, name=n_)))

        def account():
            for item in list(pending):
                req, cmd, props = item
                rep = req.reply()
                if rep is None:
                    continue
                pending.remove(item)
                if rep.get("status") != "ok":
                    continue
                name = props.get("name")
                fresh = (cmd == 'restart' or
                         props.get("graceful") is False or
                         not model.send_hup[name])
                if not fresh or h.status(name) != 'active':
                    continue
                # every live worker was started after the request
                newer_died = [r["pid"] for r in w.kernel.spawn_log
                              if r["owner"] == name and r["pid"] and
                              r["t"] >= req.t - EPS and
                              w.kernel.state(r["pid"]) != 'running' and
                              # ... by itself, not terminated by the daemon
                              w.kernel.procs[r["pid"]].cause in (
                                  'external', 'fault', 'lifetime')]
                for pid in w.eff_live(name):
                    p = w.kernel.procs[pid]
                    if p.spawned_at < req.t - EPS:
                        sig = 'C01:stale-generation:%s' % cmd
                        if newer_died:
                            sig += ':new-worker-died-meanwhile'
                        viols.append(Violation(
                            sig, '%s of %s completed at t=%.3f but worker '
                            '%d started at %.3f predates the request '
                            '(t=%.3f); new-generation workers dead by then: '
                            '%r' % (cmd, name, w.loop.time(), pid,
                                    p.spawned_at, req.t, newer_died)))
                        stale.add(pid)
                model.fresh_after[name] = req.t

        def on_op(h_, i, op):
            if op[0] == 'req':
                apply_accepted(h_.reqs[i], op[1], op[2])
            account()
            if w.dead:
                return
            if w.quiescent():
                for name in model.np:
                    n = len(w.eff_live(name))
                    if model.singleton[name] and n > 1:
                        viols.append(Violation(
                            'C01:singleton', 'singleton %s has %d live '
                            'workers' % (name, n)))

        h.run(on_op)
        deaths[0] = len([d for d in w.kernel.death_log
                         if d['cause'] in ('external', 'fault', 'lifetime')])
        # --- settle ------------------------------------------------------
        away = False
        for name in model.np:
            if len(w.live(name)) != model.np[name]:
                away = True
        if not w.quiescent():
            away = True
        ok = h.settle(checks=0)
        account()
        if w.blocked:
            viols.append(Violation(
                'C01:blocked:%s' % w.blocked_where,
                'event loop blocked in %s' % w.blocked_where))
        elif not ok:
            viols.append(Violation(
                'C01:no-quiescence', 'daemon did not become quiescent '
                'within the virtual-time budget (livelock=%s)' % w.livelock))
        else:
            converged_after = None
            for k in range(SETTLE_CHECKS + 1):
                bad = {}
                for name in model.np:
                    if h.status(name) != 'active':
                        continue
                    live = len(w.live(name))
                    if live != model.np[name]:
                        bad[name] = (live, model.np[name])
                if not bad:
                    converged_after = k
                    break
                if k < SETTLE_CHECKS:
                    w.full_check()
                    account()
            if pending:
                classes.append('unanswered-request')
            if converged_after is None:
                viols.append(Violation(
                    'C01:no-convergence', 'after %d complete checks live '
                    'workers != numprocesses: %r' % (SETTLE_CHECKS, bad)))
            elif not pending:
                classes.append('converged_after_%d' % converged_after)
                for name in model.np:
                    st = h.status(name)
                    if st != 'active':
                        # no history of this check asks for a stop, removes
                        # a watcher or installs a hook: a watcher can only
                        # leave the property's domain by the daemon's own
                        # doing, and then its target is never met
                        classes.append('not-active-at-settle')
                        if model.np[name] != len(w.live(name)):
                            viols.append(Violation(
                                'C01:left-active-state',
                                'watcher %s reports %r although nothing '
                                'asked it to stop; numprocesses is %d with '
                                '%d live workers' % (
                                    name, st, model.np[name],
                                    len(w.live(name)))))
                        continue
                    np_rep = h.option(name, 'numprocesses')
                    cnt = h.numprocesses(name)
                    pids = h.pids(name)
                    live = w.live(name)
                    if np_rep != model.np[name]:
                        viols.append(Violation(
                            'C01:numprocesses-option', 'watcher %s reports '
                            'numprocesses=%r, accepted requests imply %d' % (
                                name, np_rep, model.np[name])))
                    if cnt != len(live) or sorted(pids or []) != live:
                        viols.append(Violation(
                            'C01:replies-vs-kernel', 'watcher %s: '
                            'numprocesses reply %r, list %r, kernel live %r'
                            % (name, cnt, pids, live)))
                    if model.singleton[name] and len(live) > 1:
                        viols.append(Violation(
                            'C01:singleton', 'singleton %s has %d live '
                            'workers' % (name, len(live))))
                    t0 = model.fresh_after.get(name)
                    if t0 is not None:
                        for pid in live:
                            if pid in stale:
                                continue     # already reported at the reply
                            if w.kernel.procs[pid].spawned_at < t0 - EPS:
                                viols.append(Violation(
                                    'C01:stale-generation:settle',
                                    'worker %d of %s predates the last '
                                    'completed restart/reload' % (pid, name)))
                # fixpoint: further checks neither start nor signal (a
                # max_age expiry is a change: such watchers are left out)
                if any(wc.get("max_age") for wc in case["watchers"]):
                    classes.append('max_age-watcher')
                    # ... but only workers older than max_age expire
                    nk = len(w.kernel.signal_log)
                    w.full_check()
                    w.full_check()
                    ages = dict((wc["name"], wc.get("max_age"))
                                for wc in case["watchers"])
                    for s_ in w.kernel.signal_log[nk:]:
                        p_ = w.kernel.procs.get(s_["pid"])
                        if p_ is None or p_.kind != 'worker' or \
                                not ages.get(p_.owner):
                            continue
                        age = s_["t"] - p_.spawned_at
                        if age < ages[p_.owner] - EPS:
                            viols.append(Violation(
                                'C01:expired-before-max_age',
                                'an idle check signalled worker %d of %s '
                                '(signal %d) at age %.3f s; max_age is %s '
                                'and nothing else had changed' % (
                                    s_["pid"], p_.owner, s_["sig"], age,
                                    ages[p_.owner])))
                            break
                else:
                    ns, nk = (len(w.kernel.spawn_log),
                              len(w.kernel.signal_log))
                    w.full_check()
                    w.full_check()
                    if (len(w.kernel.spawn_log),
                            len(w.kernel.signal_log)) != (ns, nk):
                        new_sp = [(r["owner"], r["pid"])
                                  for r in w.kernel.spawn_log[ns:]]
                        new_sg = [(s_["pid"], s_["sig"])
                                  for s_ in w.kernel.signal_log[nk:]]
                        viols.append(Violation(
                            'C01:not-a-fixpoint', 'idle checks after '
                            'convergence spawned %r / signalled %r' % (
                                new_sp, new_sg)))
        nontrivial = (deaths[0] > 0 or model.changed) and away
        if deaths[0]:
            classes.append('has-death')
        if model.changed:
            classes.append('has-accepted-change')
        if w.kernel.faults_fired:
            classes.append('fault-fired')
        if any(b.get("react") == 'ignore' for b in
               (r["beh"] for r in w.kernel.spawn_log)):
            classes.append('stubborn-worker')
        if away:
            classes.append('settle-from-away')
        if w.loop_errors:
            classes.append('loop-error')
    finally:
        h.close()
    return viols, nontrivial, classes


def replay(case):
    return execute(case)[0]


# ---------------------------------------------------------------------------

def _strategy():
    from hypothesis import strategies as st

    @st.composite
    def case(draw):
        nw = draw(st.sampled_from([1, 1, 1, 2]))
        watchers = []
        gts = []
        for i in range(nw):
            singleton = draw(st.integers(0, 4)) == 0
            np_ = draw(st.integers(0, 1)) if singleton else \
                draw(st.integers(0, 4))
            gt = draw(st.sampled_from([0.1, 0.3, 1.0, 2.0, 0.1, 0.3, 0]))
            gts.append(gt)
            wc = {"name": "w%d" % i, "numprocesses": np_,
                  "graceful_timeout": gt,
                  "warmup_delay": draw(st.sampled_from([0, 0, 0.05, 0.3]))}
            if singleton:
                wc["singleton"] = True
            if draw(st.integers(0, 4)) == 0:
                wc["send_hup"] = True
            if draw(st.integers(0, 5)) == 0:
                # expiry = age > max_age at a periodic check (the variance
                # is pinned to 0 by the harness)
                wc["max_age"] = draw(st.sampled_from([1, 1, 40]))
                wc["max_age_variance"] = draw(st.sampled_from([0, 0, 38]))
            watchers.append(wc)
        names = [wc["name"] for wc in watchers]
        tape = draw(st.lists(behaviours(gts=tuple(sorted(set(gts)))),
                             max_size=10))
        name = st.sampled_from(names)
        waiting = st.booleans()

        def req(cmd, props):
            return st.tuples(st.just("req"), st.just(cmd), props).map(list)

        def with_wait(d):
            return st.tuples(d, waiting).map(
                lambda t: dict(t[0], waiting=True) if t[1] else t[0])

        reqs = st.one_of(
            req('incr', with_wait(st.fixed_dictionaries(
                {"name": name, "nb": st.integers(1, 3)}))),
            req('decr', with_wait(st.fixed_dictionaries(
                {"name": name, "nb": st.integers(1, 3)}))),
            req('set', with_wait(st.fixed_dictionaries(
                {"name": name, "options": st.fixed_dictionaries(
                    {"numprocesses": st.integers(0, 5)})}))),
            req('restart', with_wait(st.fixed_dictionaries(
                {"name": name, "match": st.just("simple")}))),
            req('reload', with_wait(st.fixed_dictionaries(
                {"name": name,
                 "graceful": st.sampled_from([True, True, False]),
                 "sequential": st.booleans()}))),
            # every watcher at once (arbiter-level reload, glob restart)
            req('reload', with_wait(st.fixed_dictionaries(
                {"graceful": st.sampled_from([True, False]),
                 "sequential": st.booleans()}))),
            req('restart', with_wait(st.just({"name": "w*"}))),
        )
        ops = draw(st.lists(st.one_of(reqs, reqs, pacing_ops(), pacing_ops(),
                                      death_ops(), death_ops()),
                            min_size=1, max_size=30))
        c = {"watchers": watchers, "tape": tape, "ops": ops}
        if any(wc.get("max_age_variance") for wc in watchers) and \
                draw(st.booleans()):
            c["randint"] = 'hi'
        return c
    return case()


def plan(tier, seed):
    n = 450 if tier == 'quick' else 9000
    return [{"seed": seed * 100 + i, "n": n} for i in range(16)]


def run_shard(spec):
    stats = Stats()
    found = hyp_search(_strategy(), execute, stats, spec["seed"], spec["n"],
                       known=spec["known"],
                       shrink=True)
    res = stats.as_dict()
    res["violations"] = found
    return res


def check_floors(counters, evaluations, tier):
    msgs = []
    for key, frac in (('has-death', 0.15), ('has-accepted-change', 0.2),
                      ('settle-from-away', 0.15), ('stubborn-worker', 0.1)):
        if counters.get(key, 0) < frac * evaluations:
            msgs.append("%s in only %d of %d histories" % (
                key, counters.get(key, 0), evaluations))
    return msgs
