"""C07 - managed sockets reach every worker generation and are never rebound.

Sim half: real CircusSocket objects bound on loopback / in a scratch
directory, real Arbiter, simulated workers; at every spawn the simulated
kernel snapshots the arguments and the inheritable flag of every managed
descriptor.  Live half (vfw/live.py): a real circusd whose real workers dump
their /proc/self/fd table.
"""
import os
import shutil
import socket
import tempfile

from vfw.history import History, lifecycle_cases
from vfw.runner import Stats, Violation, hyp_search

PROPERTY = 'C07'
LEVEL = 'exploration'
RULE = ("sim: 1-3 managed sockets (inet on port 0, unix in a scratch dir, "
        "some so_reuseport), 1-3 watchers of which some use_sockets and "
        "refer to $(circus.sockets.NAME) / ((circus.sockets.NAME)) in any "
        "letter case in cmd or args; histories of worker deaths, restart, "
        "reload (all modes), incr/decr, stop/start, checks over >= 3 worker "
        "generations.  After every op: same descriptor number, same inode, "
        "still listening, connect() succeeds; at every spawn: close_fds, the "
        "number substituted into argv, inheritable flag.  live: generated "
        "ini files on a real circusd; workers dump /proc/self/fd.  "
        "Non-trivial = >= 2 worker generations observed for a socket-using "
        "watcher; distinct by hash of the case.")
ASSUMPTIONS = [
    "sim half: the process-creation call is captured, not executed; what a "
    "real child inherits is established by the live half",
    "so_reuseport sockets are bound per worker by design and exempt from the "
    "same-socket clause",
    "loopback networking is available in the sandbox",
]


def _sockstate(s):
    st = os.fstat(s.fileno())
    return {"fileno": s.fileno(), "ino": st.st_ino,
            "name": s.getsockname(),
            "listening": s.getsockopt(socket.SOL_SOCKET,
                                      socket.SO_ACCEPTCONN)}


def _connect(s):
    fam = s.family
    c = socket.socket(fam, socket.SOCK_STREAM)
    c.settimeout(1.0)
    try:
        c.connect(s.getsockname())
        return True
    except Exception:
        return False
    finally:
        c.close()


def execute(case):
    if "token" in case:
        from vfw import live
        return live.execute_live(case, ('C07:live',))
    from circus.sockets import CircusSocket
    tmp = tempfile.mkdtemp(prefix='c07-')
    socks = []
    viols = []
    classes = set()
    h = None
    try:
        cfgmode = bool(case["history"].get("config"))
        for sp in ([] if cfgmode else case["sockets"]):
            if sp["kind"] == 'unix':
                s = CircusSocket(name=sp["name"],
                                 path=os.path.join(tmp, sp["name"] + '.sock'),
                                 so_reuseport=False,
                                 blocking=bool(sp.get("blocking")))
            else:
                s = CircusSocket(name=sp["name"], host='127.0.0.1', port=0,
                                 so_reuseport=bool(sp.get("reuseport")),
                                 blocking=bool(sp.get("blocking")))
            socks.append(s)
        hc = dict(case["history"])
        if cfgmode:
            # the daemon is started from an ini file with [socket:...]
            # sections and may be told to re-read it
            hc["socket_sections"] = [dict(sp) for sp in case["sockets"]]
            classes.add('config-file-history')
        else:
            hc["arbiter"] = dict(hc.get("arbiter") or {},
                                 sockets=list(socks))
        wcfg = dict((wc["name"], dict(wc)) for wc in hc["watchers"])
        hc["watchers"] = [dict((kk, vv) for kk, vv in wc.items()
                               if kk != "_refs") for wc in hc["watchers"]]
        if cfgmode:
            for wc in hc["watchers"]:
                if isinstance(wc.get("args"), list):
                    wc["args"] = ' '.join(wc["args"])
        h = History(hc)
        w = h.world
        k = w.kernel
        if cfgmode:
            socks = [w.arbiter.sockets[sp["name"]] for sp in case["sockets"]]
        names = [sp["name"] for sp in case["sockets"]]
        by_name = dict((s.name, s) for s in socks)

        def observer(rec):
            rec["inheritable"] = {}
            for s in socks:
                try:
                    rec["inheritable"][s.name] = os.get_inheritable(s.fileno())
                except OSError:
                    rec["inheritable"][s.name] = None
            rec["filenos"] = dict((s.name, s.fileno()) for s in socks)
        k.spawn_observer = observer

        def probe():
            # run in a forked child right after circus' preexec function:
            # what does the future worker see at the managed descriptors?
            view = {}
            for s in socks:
                try:
                    view[s.name] = os.fstat(s.fileno()).st_ino
                except OSError:
                    view[s.name] = None
            try:
                view["fd0"] = os.fstat(0).st_ino
            except OSError:
                view["fd0"] = None
            return view
        k.preexec_probe = probe
        h.start()
        plain = [s for s in socks if not s.so_reuseport]
        base = dict((s.name, _sockstate(s)) for s in plain)
        checked = [0]

        def check_sockets(where):
            for s in plain:
                try:
                    cur = _sockstate(s)
                except OSError as e:
                    viols.append(Violation(
                        'C07:socket-closed', 'socket %s is closed %s (%s)'
                        % (s.name, where, e)))
                    continue
                b = base[s.name]
                if cur["fileno"] != b["fileno"] or cur["ino"] != b["ino"] \
                        or cur["name"] != b["name"]:
                    viols.append(Violation(
                        'C07:socket-rebound', 'socket %s changed %s: %r -> '
                        '%r' % (s.name, where, b, cur)))
                elif not cur["listening"]:
                    viols.append(Violation(
                        'C07:not-listening', 'socket %s no longer listens %s'
                        % (s.name, where)))
                elif not _connect(s):
                    viols.append(Violation(
                        'C07:connect-failed', 'connect() to %s failed %s'
                        % (s.name, where)))

        def check_spawns():
            for rec in k.spawn_log[checked[0]:]:
                wc = wcfg.get(rec["owner"])
                if wc is None or rec.get("failed"):
                    continue
                if _uses(wc):
                    if rec["close_fds"]:
                        viols.append(Violation(
                            'C07:close_fds-for-use_sockets',
                            'worker of %s (use_sockets) created with '
                            'close_fds=True' % rec["owner"]))
                    for (sname, argidx) in wc.get("_refs", []):
                        s = by_name[sname]
                        arg = rec["args"][argidx] if isinstance(
                            rec["args"], list) and len(rec["args"]) > argidx \
                            else None
                        if s.so_reuseport:
                            classes.add('reuseport-reference')
                            if arg is None or not str(arg).isdigit():
                                viols.append(Violation(
                                    'C07:reuseport-not-substituted',
                                    'argv %r' % (rec["args"],)))
                            continue
                        want = str(base[sname]["fileno"]) if sname in base \
                            else None
                        if arg != want:
                            viols.append(Violation(
                                'C07:wrong-descriptor-substituted',
                                'worker of %s: argv %r carries %r for socket '
                                '%s whose descriptor is %s' % (
                                    rec["owner"], rec["args"], arg, sname,
                                    want)))
                        cv = rec.get("child_view")
                        if isinstance(cv, dict) and sname in base and \
                                cv.get(sname) != base[sname]["ino"]:
                            viols.append(Violation(
                                'C07:descriptor-lost-before-exec',
                                'worker of %s: after the pre-exec step the '
                                'child sees inode %r at fd %s, the daemon\'s '
                                'socket %s is inode %r (child view %r)' % (
                                    rec["owner"], cv.get(sname), want, sname,
                                    base[sname]["ino"], cv)))
                        if not rec["inheritable"].get(sname):
                            viols.append(Violation(
                                'C07:descriptor-not-inheritable',
                                'socket %s (fd %s) was not inheritable when '
                                'a worker of %s was created' % (
                                    sname, want, rec["owner"])))
                else:
                    if not rec["close_fds"]:
                        viols.append(Violation(
                            'C07:fds-leak-to-plain-watcher',
                            'worker of %s (no use_sockets) created with '
                            'close_fds=False' % rec["owner"]))
            checked[0] = len(k.spawn_log)

        def on_op(h_, i, op):
            if op[0] == 'cfg' and "set" in op[1] and op[1]["set"][1] == 'cmd':
                # the edited command line no longer refers to the sockets
                wcfg.get(op[1]["set"][0], {})["_refs"] = []
            check_spawns()
            if not viols:
                check_sockets('after op %d %r' % (i, op[:2]))

        check_spawns()
        check_sockets('after daemon start')
        if not viols:
            h.run(on_op)
            h.settle(checks=1)
            check_spawns()
            check_sockets('at the end')
        if w.blocked:
            viols.append(Violation('C07:blocked:%s' % w.blocked_where,
                                   'event loop blocked'))
        gens = {}
        for rec in k.spawn_log:
            wc = wcfg.get(rec["owner"])
            if wc and _uses(wc) and rec["pid"]:
                gens[rec["owner"]] = gens.get(rec["owner"], 0) + 1
        multi = any(n > int(wcfg[o].get("numprocesses", 1))
                    for o, n in gens.items())
        if multi:
            classes.add('several-generations')
        nontrivial = multi
    finally:
        if h is not None:
            h.close()
        for s in socks:
            try:
                s.close()
            except Exception:
                pass
        shutil.rmtree(tmp, ignore_errors=True)
    seen = set()
    out = []
    for v in viols:
        if v["signature"] not in seen:
            seen.add(v["signature"])
            out.append(v)
    return out, nontrivial, sorted(classes)


def replay(case):
    return execute(case)[0]


def _strategy():
    from hypothesis import strategies as st
    base = lifecycle_cases(
        requests=('incr', 'decr', 'restart', 'reload', 'stop', 'start'),
        max_watchers=3, max_ops=24, config=True)

    @st.composite
    def case(draw):
        ns = draw(st.integers(1, 3))
        socks = []
        for i in range(ns):
            kind = draw(st.sampled_from(['inet', 'inet', 'unix']))
            sp = {"name": ['web', 'api', 'ctl'][i], "kind": kind}
            if kind == 'inet' and draw(st.integers(0, 4)) == 0:
                sp["reuseport"] = True
            if draw(st.integers(0, 3)) == 0:
                sp["blocking"] = True
            if kind == 'inet' and draw(st.integers(0, 2)) == 0:
                sp["proto"] = 'tcp'
            socks.append(sp)
        hist = draw(base)
        if hist.get("config"):
            for sp in socks:
                sp.pop("reuseport", None)
        for wc in hist["watchers"]:
            if wc["numprocesses"] == 0:
                wc["numprocesses"] = 1
            plain = [sp["name"] for sp in socks if not sp.get("reuseport")]
            if plain and draw(st.integers(0, 3)) == 0:
                # the named socket is placed on the workers' fd 0; this is
                # independent of use_sockets
                wc["stdin_socket"] = draw(st.sampled_from(plain))
            if draw(st.integers(0, 3)) > 0:
                wc["use_sockets"] = True
                refs = []
                parts = ["prog-%s" % wc["name"]]
                if draw(st.booleans()):
                    # (more placeholders in the same string)
                    parts += ['--wid', '$(circus.wid)', '--name',
                              '$(circus.name)'][:draw(st.sampled_from([2, 4]))]
                as_args = draw(st.booleans())
                arglist = []
                for sp in draw(st.lists(st.sampled_from(socks), min_size=1,
                                        max_size=3,
                                        unique_by=lambda s: s["name"])):
                    nm = sp["name"]
                    if sp.get("reuseport"):
                        # (the per-worker re-bind looks for the lower-case
                        # spelling in cmd)
                        txt = '$(circus.sockets.%s)' % nm
                        parts += ['--fd', txt]
                        refs.append((nm, len(parts) - 1))
                        continue
                    spell = draw(st.sampled_from(
                        ['$(circus.sockets.%s)' % nm,
                         '((circus.sockets.%s))' % nm,
                         '$(CIRCUS.SOCKETS.%s)' % nm.upper(),
                         '$(circus.sockets.%s)' % nm.capitalize()]))
                    if as_args:
                        arglist += ['--fd', spell]
                    else:
                        parts += ['--fd', spell]
                        refs.append((nm, len(parts) - 1))
                if as_args and arglist:
                    wc["args"] = arglist
                    for j, a in enumerate(arglist):
                        if 'ockets' in a or 'OCKETS' in a:
                            nm = a.split('.')[-1].rstrip(')').lower()
                            refs.append((nm, len(parts) + j))
                wc["cmd"] = ' '.join(parts)
                wc["_refs"] = refs
            elif draw(st.booleans()):
                # "without use_sockets" said explicitly (in a file: in any
                # of the documented spellings of false)
                wc["use_sockets"] = draw(st.sampled_from(
                    ["False", "false", "0", "no", "off"])) \
                    if hist.get("config") else False
        return {"sockets": socks, "history": hist}
    return case()


def _uses(wc):
    """use_sockets as a configuration file spells it."""
    return str(wc.get("use_sockets", False)).lower() in (
        'true', '1', 'yes', 'on')


def _strip(case):
    import copy
    c = copy.deepcopy(case)
    return c


def plan(tier, seed):
    n = 700 if tier == 'quick' else 6000
    nl = 3 if tier == 'quick' else 40
    return ([{"seed": seed * 100 + i, "n": n} for i in range(13)] +
            [{"kind": "live", "seed": seed * 100 + 60 + i, "n": nl}
             for i in range(3)])


def run_shard(spec):
    stats = Stats()
    if spec.get("kind") == 'live':
        from vfw import live
        found = hyp_search(live.strategy(), execute, stats, spec["seed"],
                           spec["n"], known=spec["known"], max_rounds=2,
                           shrink=False)
        res = stats.as_dict()
        res["violations"] = found
        res["inconclusive"] = stats.counters.get('live-inconclusive', 0)
        return res
    found = hyp_search(_strategy(), execute, stats, spec["seed"], spec["n"],
                       known=spec["known"], max_rounds=5)
    res = stats.as_dict()
    res["violations"] = found
    return res


def check_floors(counters, evaluations, tier):
    msgs = []
    if counters.get('several-generations', 0) < 0.15 * evaluations:
        msgs.append("several generations in only %d of %d cases" % (
            counters.get('several-generations', 0), evaluations))
    return msgs
