"""C12 - reloadconfig converges to the file and disturbs only what changed.

A configuration *model* is rendered to an ini file; generated edits (add,
remove, change one field, revert, no-op) are each followed by a waiting
reloadconfig on a SimWorld daemon loaded from that file.  Oracles: the
model, a differential against a fresh Watcher.load_from_config of the same
file, and the kernel's pid sets / logs.
"""
import copy
import json
import os
import shutil
import tempfile

from vfw.history import History
from vfw.runner import Stats, Violation, hyp_search
from vfw.world import SimWorld

PROPERTY = 'C12'
LEVEL = 'exploration'
RULE = ("case = initial configuration model (1-3 watchers: cmd, "
        "numprocesses, graceful_timeout, priority, freeform option, args, "
        "working_dir, streams, autostart, per-watcher env section; "
        "optionally [env], a managed socket, a plugin) + 1-6 edits from {add watcher, remove "
        "watcher, set one field to a value from a small pool (so reverts to "
        "earlier values occur), [env] edit, worker death, no-op}, each (or a "
        "batch of several, a quarter are held back for the next) followed by reloadconfig "
        "(waiting) and a drain.  Non-trivial = >= 2 successive reloads with "
        "an edit between them; distinct by hash of the case; reverts are "
        "counted as a class.")
ASSUMPTIONS = [
    "[circus] and socket sections are held fixed (documented to restart "
    "everything otherwise)",
    "fresh-start differential: options of a Watcher freshly built by "
    "Watcher.load_from_config(get_config(file)) on the same text",
    "verdicts are relative to the simulated kernel; workers obey the stop "
    "signal at once in this check",
]
FIELDS = {
    "numprocesses": [1, 2, 3, 0],
    "cmd": ["prog-a", "prog-b --x"],
    "graceful_timeout": [0.2, 0.5],
    "priority": [0, 1],
    "myopt": [None, "v1", "v2"],
    "env": [None, {"K": "1"}, {"K": "2"}, {"K": "1", "L": "x"}],
    "stream": [None, "QueueStream", "StdoutStream"],
    "args": [None, "--a 1", "--b '2 3'"],
    "working_dir": [None, "/tmp", "/"],
    "autostart": [None, False],
}


def render(model):
    lines = ["[circus]", "check_delay = -1",
             "endpoint = tcp://127.0.0.1:1",
             "pubsub_endpoint = tcp://127.0.0.1:2", ""]
    if model.get("genv"):
        lines.append("[env]")
        for kk in sorted(model["genv"]):
            lines.append("%s = %s" % (kk, model["genv"][kk]))
        lines.append("")
    for sk in model.get("sockets") or []:
        # managed sockets are never edited: their sections stay fixed
        lines += ["[socket:%s]" % sk["name"], "host = 127.0.0.1",
                  "port = 0"]
        if sk.get("proto"):
            lines.append("proto = %s" % sk["proto"])
        lines.append("")
    for name in model["order"]:
        wm = model["watchers"][name]
        cmdline = wm["cmd"]
        if wm.get("socket"):
            cmdline += " --fd $(circus.sockets.%s)" % wm["socket"]
        lines += ["[watcher:%s]" % name, "cmd = %s" % cmdline,
                  "numprocesses = %d" % wm["numprocesses"],
                  "graceful_timeout = %s" % wm["graceful_timeout"],
                  "priority = %d" % wm["priority"]]
        if wm.get("socket"):
            lines.append("use_sockets = True")
        if wm.get("copy_env"):
            lines.append("copy_env = True")
        if wm.get("autostart") is False:
            lines.append("autostart = False")
        if wm.get("myopt") is not None:
            lines.append("myopt = %s" % wm["myopt"])
        if wm.get("args") is not None:
            lines.append("args = %s" % wm["args"])
        if wm.get("working_dir") is not None:
            lines.append("working_dir = %s" % wm["working_dir"])
        if wm.get("stream") is not None:
            lines.append("stdout_stream.class = %s" % wm["stream"])
            lines.append("stderr_stream.class = %s" % wm["stream"])
        lines.append("")
        if wm.get("env"):
            lines.append("[env:%s]" % name)
            for kk in sorted(wm["env"]):
                lines.append("%s = %s" % (kk, wm["env"][kk]))
            lines.append("")
    for pl in model.get("plugins") or []:
        lines += ["[plugin:%s]" % pl["name"],
                  "use = circus.plugins.statsd.FullStats",
                  "priority = %d" % pl["priority"], ""]
    return "\n".join(lines)


def fresh_options(path):
    """What a fresh start on this file would give each watcher."""
    from circus.config import get_config
    from circus.watcher import Watcher
    import tornado.ioloop
    out = {}
    for wc in get_config(path)["watchers"]:
        w = Watcher.load_from_config(dict(wc))
        out[w.name] = json.loads(json.dumps(dict(w.options())))
    return out


def execute(case):
    environ0 = dict(os.environ)
    try:
        return _execute(case, environ0)
    finally:
        # (whatever the code under test did to the process environment
        # must not leak into the next case)
        os.environ.clear()
        os.environ.update(environ0)


def _execute(case, environ0):
    tmp = tempfile.mkdtemp(prefix='c12-')
    cfg = os.path.join(tmp, 'circus.ini')
    model = copy.deepcopy(case["initial"])
    with open(cfg, 'w') as f:
        f.write(render(model))
    viols = []
    classes = set()
    h = History.__new__(History)
    h.case = {}
    h.hook_log = []
    h.reqs = {}
    h.world = w = SimWorld(config_file=cfg)
    k = w.kernel
    nreload = 0
    died = set()
    try:
        h.start()
        history = [copy.deepcopy(model)]
        undo = []
        plug_pids = dict(('plugin:%s' % pl["name"],
                          sorted(w.eff_live('plugin:%s' % pl["name"])))
                         for pl in model.get("plugins") or [])
        held_before = None
        for ed in case["edits"]:
            if viols or w.dead or w.exited:
                break
            # an edit marked "hold" is written with the next one: several
            # edits reach the daemon in ONE reloadconfig
            hold = bool(ed) and ed[-1] == 'hold'
            if hold:
                ed = ed[:-1]
            before = held_before if held_before is not None \
                else copy.deepcopy(model)
            kind = ed[0]
            if kind == 'genv':
                g = dict(model.get("genv") or {})
                if ed[2] is None:
                    g.pop(ed[1], None)
                else:
                    g[ed[1]] = ed[2]
                model["genv"] = g
                classes.add('global-env-edit')
            if kind == 'die':
                # a worker dies and nothing has noticed yet when the next
                # reloadconfig arrives
                live_ = w.live(ed[1]) if ed[1] in model["watchers"] else []
                if live_:
                    k.external_death(live_[0], ["signal", 9])
                    died.add(ed[1])
                    classes.add('death-before-reload')
                continue
            if kind == 'add':
                if ed[1] in model["watchers"]:
                    continue
                model["watchers"][ed[1]] = copy.deepcopy(ed[2])
                model["order"].append(ed[1])
            elif kind == 'remove':
                if ed[1] not in model["watchers"]:
                    continue
                del model["watchers"][ed[1]]
                model["order"].remove(ed[1])
            elif kind == 'revert':
                cands = [u for u in undo if u[0] in model["watchers"] and
                         model["watchers"][u[0]].get(u[1]) != u[2]]
                if not cands:
                    continue
                u = cands[-1 - (ed[1] % len(cands))]
                model["watchers"][u[0]][u[1]] = u[2]
                classes.add('revert')
                ed = ['set', u[0], u[1], u[2]]
                kind = 'set'
            elif kind == 'set':
                if ed[1] not in model["watchers"]:
                    continue
                undo.append((ed[1], ed[2],
                             model["watchers"][ed[1]].get(ed[2])))
                model["watchers"][ed[1]][ed[2]] = ed[3]
                if len(history) >= 2 and ed[1] in history[-2]["watchers"] \
                        and history[-2]["watchers"][ed[1]].get(ed[2]) == \
                        ed[3] and ed[1] in before["watchers"] and \
                        before["watchers"][ed[1]].get(ed[2]) != ed[3]:
                    classes.add('revert')
            if hold:
                held_before = before
                classes.add('several-edits-in-one-reload')
                continue
            held_before = None
            with open(cfg, 'w') as f:
                f.write(render(model))
            history.append(copy.deepcopy(model))
            pids_before = dict((n, sorted(w.live(n)))
                               for n in before["watchers"])
            ns, nk = len(k.spawn_log), len(k.signal_log)
            r = w.request('reloadconfig', {"waiting": True})
            ok = w.drain()
            nreload += 1
            had_death = set(died)
            if died:
                # the daemon replaces the dead workers at its next check
                w.full_check()
                died.clear()
            rep = r.reply() or {}
            where = 'after %r' % (ed,)
            if w.blocked:
                viols.append(Violation('C12:blocked:%s' % w.blocked_where,
                                       'event loop blocked'))
                break
            if rep.get("status") != "ok":
                viols.append(Violation(
                    'C12:reloadconfig-failed:%s' % kind,
                    'reloadconfig %s answered %r' % (
                        where, {x: rep.get(x) for x in ('status', 'reason')})))
                break
            # ---- same watchers as the file
            names = sorted(model["watchers"])
            plugs = ['plugin:%s' % pl["name"]
                     for pl in model.get("plugins") or []]
            got = h.watcher_names() or []
            if sorted(got) != sorted(n.lower() for n in names + plugs):
                viols.append(Violation(
                    'C12:watcher-set:%s' % kind,
                    'file defines %r, daemon lists %r (%s)' % (
                        names, got, where)))
                break
            # ---- options / numprocesses as a fresh start would have them
            # (a daemon freshly started on this file: in the environment
            # this one was started with)
            cur_env = dict(os.environ)
            os.environ.clear()
            os.environ.update(environ0)
            try:
                fresh = fresh_options(cfg)
            finally:
                os.environ.clear()
                os.environ.update(cur_env)
            for n in names:
                opt = (w.probe('options', {"name": n}) or {}).get("options")
                want = fresh.get(n)
                if opt != want:
                    diff = sorted(kk for kk in set(opt or {}) | set(want or {})
                                  if (opt or {}).get(kk) != (want or {}).get(kk))
                    viols.append(Violation(
                        'C12:options-differ-from-fresh-start:%s' % (
                            '+'.join(diff)),
                        'watcher %s %s: daemon has %r, a fresh start on the '
                        'same file gives %r' % (
                            n, where, dict((kk, (opt or {}).get(kk))
                                           for kk in diff),
                            dict((kk, (want or {}).get(kk)) for kk in diff))))
                np_model = model["watchers"][n]["numprocesses"]
                live = sorted(w.eff_live(n))
                if model["watchers"][n].get("autostart") is False:
                    # a fresh start on this file leaves it stopped
                    classes.add('autostart-false')
                    st_ = h.status(n)
                    if live or st_ != 'stopped':
                        viols.append(Violation(
                            'C12:autostart-false-watcher-started:%s' % kind,
                            'watcher %s %s: the file says autostart = False '
                            '(a fresh start leaves it stopped), the daemon '
                            'reports %r with workers %r' % (
                                n, where, st_, live)))
                    continue
                if len(live) != np_model:
                    sig = 'C12:process-count:%s' % kind
                    if h.status(n) == 'stopped' and any(
                            n in hm["watchers"] and
                            hm["watchers"][n]["numprocesses"] == 0
                            for hm in history[:-1]):
                        sig = ('C12:process-count:watcher-left-stopped-'
                               'after-numprocesses-0')
                    viols.append(Violation(
                        sig,
                        'watcher %s %s: file says numprocesses=%d, %d '
                        'workers run' % (n, where, np_model, len(live))))
            # ---- disturbance
            for pn in plugs:
                classes.add('with-plugin-section')
                if sorted(w.eff_live(pn)) != plug_pids.get(pn):
                    viols.append(Violation(
                        'C12:unchanged-plugin-disturbed:%s' % kind,
                        'plugin section %s is never edited, yet after %r '
                        'its pids went %r -> %r' % (
                            pn, ed, plug_pids.get(pn),
                            sorted(w.eff_live(pn)))))
                    plug_pids[pn] = sorted(w.eff_live(pn))
            for n in names:
                if n not in before["watchers"]:
                    continue
                b, a = before["watchers"][n], model["watchers"][n]
                old = pids_before.get(n, [])
                new = sorted(w.eff_live(n))
                changed = sorted(kk for kk in set(a) | set(b)
                                 if a.get(kk) != b.get(kk))
                if n in had_death:
                    continue      # its dead worker was rightly replaced
                if (before.get("genv") or {}) != (model.get("genv") or {}):
                    continue      # [env] is part of every watcher's env
                if not changed:
                    if old != new:
                        viols.append(Violation(
                            'C12:unchanged-watcher-disturbed:%s' % kind,
                            'watcher %s is unchanged by %r but its pids '
                            'went %r -> %r' % (n, ed, old, new)))
                elif changed == ['numprocesses']:
                    classes.add('numprocesses-only-edit')
                    if not (set(old) <= set(new) or set(new) <= set(old)):
                        viols.append(Violation(
                            'C12:numprocesses-only-replaced-workers',
                            'watcher %s: only numprocesses changed %d -> %d '
                            'but pids went %r -> %r' % (
                                n, b["numprocesses"], a["numprocesses"],
                                old, new)))
            if model == before and not had_death:
                classes.add('noop-reload')
                if (len(k.spawn_log), len(k.signal_log)) != (ns, nk):
                    viols.append(Violation(
                        'C12:noop-reload-did-something',
                        'file unchanged, yet spawns %r signals %r' % (
                            [r_["pid"] for r_ in k.spawn_log[ns:]],
                            [(s["pid"], s["sig"])
                             for s in k.signal_log[nk:]])))
    finally:
        try:
            w.close()
        finally:
            shutil.rmtree(tmp, ignore_errors=True)
    if nreload >= 2:
        classes.add('two-or-more-reloads')
    return viols, nreload >= 2, sorted(classes)


def replay(case):
    return execute(case)[0]


def _strategy():
    from hypothesis import strategies as st

    def spec():
        return st.fixed_dictionaries({
            "cmd": st.sampled_from(FIELDS["cmd"]),
            "numprocesses": st.sampled_from([1, 2, 3]),
            "graceful_timeout": st.sampled_from(FIELDS["graceful_timeout"]),
            "priority": st.sampled_from(FIELDS["priority"]),
            "myopt": st.sampled_from(FIELDS["myopt"]),
            "env": st.sampled_from(FIELDS["env"]),
            "stream": st.sampled_from([None, None, "QueueStream",
                                       "StdoutStream"]),
            "args": st.sampled_from([None, None, "--a 1"]),
            "working_dir": st.sampled_from([None, None, "/tmp"]),
            "autostart": st.sampled_from([None, None, None, None, False])})
    names = ['w1', 'W2', 'Web3']

    @st.composite
    def case(draw):
        n0 = draw(st.integers(1, 3))
        order = names[:n0]
        model = {"order": list(order),
                 "watchers": dict((n, draw(spec())) for n in order)}
        if draw(st.integers(0, 2)) == 0:
            model["sockets"] = [{"name": "web", "proto": draw(
                st.sampled_from([None, "tcp"]))}]
            for n in order:
                if draw(st.booleans()):
                    model["watchers"][n]["socket"] = "web"
        if draw(st.integers(0, 2)) == 0:
            model["genv"] = {"GV": "1"}
            for n in order:
                if draw(st.booleans()):
                    model["watchers"][n]["copy_env"] = True
        if draw(st.integers(0, 3)) == 0:
            model["plugins"] = [{"name": "stats",
                                 "priority": draw(st.sampled_from([1, 5]))}]
        edits = []
        for _ in range(draw(st.integers(1, 6))):
            kind = draw(st.sampled_from(['set', 'set', 'set', 'set', 'add',
                                         'remove', 'noop', 'revert',
                                         'revert', 'die']))
            if kind == 'die':
                edits.append(['die', draw(st.sampled_from(names))])
                continue
            if kind == 'noop' and draw(st.booleans()):
                edits.append(['genv', draw(st.sampled_from(['GV', 'GW'])),
                              draw(st.sampled_from([None, '1', '2']))])
                continue
            hold = ['hold'] if draw(st.integers(0, 3)) == 0 else []
            if kind == 'set':
                field = draw(st.sampled_from(
                    ['numprocesses', 'numprocesses', 'numprocesses', 'cmd',
                     'graceful_timeout', 'priority', 'myopt', 'env',
                     'stream', 'args', 'working_dir', 'autostart']))
                edits.append(['set', draw(st.sampled_from(names)), field,
                              draw(st.sampled_from(FIELDS[field]))] + hold)
            elif kind == 'add':
                edits.append(['add', draw(st.sampled_from(names)),
                              draw(spec())] + hold)
            elif kind == 'remove':
                edits.append(['remove', draw(st.sampled_from(names))] + hold)
            elif kind == 'revert':
                edits.append(['revert', draw(st.integers(0, 2))])
            else:
                edits.append(['noop'])
        return {"initial": model, "edits": edits}
    return case()


def plan(tier, seed):
    n = 700 if tier == 'quick' else 8000
    return [{"seed": seed * 100 + i, "n": n} for i in range(16)]


def run_shard(spec):
    stats = Stats()
    found = hyp_search(_strategy(), execute, stats, spec["seed"], spec["n"],
                       known=spec["known"], max_rounds=6)
    res = stats.as_dict()
    res["violations"] = found
    return res


def check_floors(counters, evaluations, tier):
    msgs = []
    for key, frac in (('two-or-more-reloads', 0.18), ('revert', 0.05),
                      ('numprocesses-only-edit', 0.06),
                      ('several-edits-in-one-reload', 0.1)):
        if counters.get(key, 0) < frac * evaluations:
            msgs.append("%s in only %d of %d cases" % (
                key, counters.get(key, 0), evaluations))
    return msgs
