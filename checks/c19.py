"""C19 - watchers start in priority order, paced by the warm-up delays.

The oracle reads the simulated kernel's spawn log (virtual timestamps) for
each start sequence: daemon start, and start/restart requests matching
several watchers.
"""
from vfw.history import History, how_strategy
from vfw.runner import Stats, Violation, hyp_search

PROPERTY = 'C19'
LEVEL = 'exploration'
RULE = ("case = 1-5 watchers with priorities from a small range (ties "
        "likely), numprocesses 0-3, per-watcher warmup_delay in {0, 0.1, "
        "0.5}, global warmup_delay in {0, 0.2, 1}, autostart flags, a "
        "per-spawn cost (virtual time a fork+exec takes) in {1 us, 20 ms, "
        "45 ms}; the "
        "daemon start plus 0-3 further sequences (start, restart or "
        "reload (graceful off: all restarted; graceful on: the stopped "
        "ones started) without "
        "a name or with a glob matching several watchers; a per-watcher "
        "warmup_delay changed by a set request before; several watcher "
        "sections added to the ini file and a reloadconfig; all or some watchers "
        "stopped in between, workers dying just before - noticed by a check or "
        "not, respawn on or off; on-demand watchers woken together by a "
        "client connection; a quarter of the daemons are started from an ini "
        "file), "
        "with worker deaths injected at generated kernel-call boundaries of "
        "the sequence.  Non-trivial = >= 2 autostart watchers with different "
        "priorities, or a non-zero delay; distinct by hash of the case.")
ASSUMPTIONS = [
    "verdicts are relative to the simulated kernel; spawn times are exact "
    "virtual timestamps (eps = 1e-3, each spawn costs 1 us)",
    "ties in priority are unconstrained",
    "only the spawns between the start of a sequence and its completion "
    "are considered; in half of the cases the real periodic callback fires "
    "(every 0.2 / 0.05 s of virtual time) while the sequences run",
]
EPS = 1e-3


def analyse(seq_name, spawns, wmap, order_expected, gwarm, viols):
    """spawns: spawn_log slice of one start sequence."""
    by = {}
    for r in spawns:
        if r["pid"] is None:
            continue
        by.setdefault(r["owner"], []).append(r)
    started = [n for n in order_expected if n in by]
    # watchers begin in non-increasing priority
    firsts = sorted(((by[n][0]["t"], by[n][0]["ncall"], n) for n in by))
    seq = [n for (_, _, n) in firsts]
    for a, b in zip(seq, seq[1:]):
        if wmap[a]["priority"] < wmap[b]["priority"]:
            viols.append(Violation(
                'C19:priority-order:%s' % seq_name,
                '%s: watcher %s (priority %d) began before %s (priority %d)'
                % (seq_name, a, wmap[a]["priority"], b,
                   wmap[b]["priority"])))
    # all spawns of a watcher precede the first of the next
    for a, b in zip(seq, seq[1:]):
        last_a = by[a][-1]
        first_b = by[b][0]
        if (last_a["t"], last_a["ncall"]) > (first_b["t"], first_b["ncall"]):
            viols.append(Violation(
                'C19:interleaved:%s' % seq_name,
                '%s: %s spawned a worker at t=%.4f after %s had begun '
                '(t=%.4f)' % (seq_name, a, last_a["t"], b, first_b["t"])))
        gap = first_b["t"] - last_a["t"]
        if gap < gwarm - EPS:
            viols.append(Violation(
                'C19:global-warmup:%s' % seq_name,
                '%s: only %.4f s between the last spawn of %s and the first '
                'of %s; global warmup_delay is %s' % (
                    seq_name, gap, a, b, gwarm)))
    # pacing within a watcher
    for n, rs in by.items():
        wd = float(wmap[n].get("warmup_delay", 0))
        for x, y in zip(rs, rs[1:]):
            if y["t"] - x["t"] < wd - EPS:
                viols.append(Violation(
                    'C19:watcher-warmup:%s' % seq_name,
                    '%s: watcher %s spawned two workers %.4f s apart; its '
                    'warmup_delay is %s' % (seq_name, n, y["t"] - x["t"],
                                            wd)))
        if len([r for r in rs]) > int(wmap[n]["numprocesses"]):
            viols.append(Violation(
                'C19:too-many-initial-spawns:%s' % seq_name,
                '%s: watcher %s spawned %d workers, numprocesses %d' % (
                    seq_name, n, len(rs), wmap[n]["numprocesses"])))


def execute(case):
    if case.get("config"):
        # the daemon is started from an ini file (whole seconds there)
        case = dict(case, ondemand=[], watchers=[
            dict(wc, warmup_delay=1 if wc.get("warmup_delay", 0) >= 0.5
                 else 0) for wc in case["watchers"]],
            global_warmup=1 if case["global_warmup"] >= 1 else 0)
    od = set(case.get("ondemand") or [])
    for i_, wc_ in enumerate(case["watchers"]):
        if i_ in od:
            wc_ = case["watchers"][i_] = dict(wc_, on_demand=True,
                                              use_sockets=True)
    hc = {"watchers": [dict(wc) for wc in case["watchers"]],
          "arbiter": {"warmup_delay": case["global_warmup"]},
          "spawn_cost": case.get("spawn_cost", 1e-6),
          "periodic": case.get("periodic"),
          "ops": [], "tape": []}
    if od:
        hc["sockets"] = ["unix"]
    if case.get("config"):
        hc["config"] = True
    h = History(hc)
    w = h.world
    k = w.kernel
    viols = []
    classes = set()
    wmap = dict((wc["name"], dict(wc, priority=wc.get("priority", 0)))
                for wc in case["watchers"])
    gwarm = float(case["global_warmup"])
    try:
        for f in case.get("start_faults", []):
            k.arm_fault(f[0], f[1], f[2])
        if case.get("periodic"):
            # the real periodic callback keeps firing (every `periodic`
            # seconds of virtual time) while the sequences run; a sequence
            # ends when the exclusive slot is free again / its reply arrives
            classes.add('periodic-checks-during-sequences')
            w.start(drain=False)
            h.started = True
            w.advance_until(
                lambda: w.arbiter._exclusive_running_command is None and
                w.loop.is_idle(), w.loop.time() + 600.0)
            # (the window ends with the kernel call count at that moment: a
            # periodic check firing at the very instant the sequence ends
            # is not part of it)
            nc_end = k.ncalls
            first = [r for r in k.spawn_log if r["ncall"] <= nc_end and
                     r.get("excl") != 'manage_watchers']
            w.drain()
        else:
            h.start()
            first = list(k.spawn_log)
        auto = [n for n in wmap if wmap[n].get("autostart", True) and
                not wmap[n].get("on_demand")]
        analyse('daemon-start', first, wmap, auto, gwarm, viols)
        for n in wmap:
            if not wmap[n].get("autostart", True):
                classes.add('autostart-off')
                sp = [r for r in k.spawn_log if r["owner"] == n]
                st = h.status(n)
                if sp or st != 'stopped':
                    viols.append(Violation(
                        'C19:autostart-off-started',
                        'watcher %s has autostart off, yet after the daemon '
                        'start: spawns %r, status %r' % (
                            n, [r["pid"] for r in sp], st)))
        for sq in case["sequences"]:
            if viols or w.dead or w.exited:
                break
            kind = sq["kind"]
            if kind == 'socket-event':
                # a client connects: the stopped on-demand watchers are
                # started together by the next periodic check
                if not h.socks:
                    continue
                waiting_ = [n for n in wmap if wmap[n].get("on_demand") and
                            wmap[n].get("autostart", True) and
                            h.status(n) == 'stopped']
                n0 = len(k.spawn_log)
                h.connect(0)
                w.check()
                w.drain()
                if len(waiting_) >= 2:
                    classes.add('multi-watcher-sequence')
                classes.add('socket-event-sequence')
                # (the same check may also respawn workers of running
                # watchers: those are not part of the sequence)
                analyse('socket-event',
                        [r_ for r_ in k.spawn_log[n0:]
                         if r_["owner"] in waiting_], wmap, waiting_,
                        gwarm, viols)
                continue
            if kind == 'reloadconfig-add':
                # several watcher sections are added to the file at once:
                # the reloadconfig starts them together
                if not case.get("config"):
                    continue
                added = []
                for j, (prio, np_) in enumerate(sq["add"]):
                    nm = 'n%d_%d' % (len(wmap), j)
                    wc_ = {"name": nm, "numprocesses": np_,
                           "priority": prio, "graceful_timeout": 0.2,
                           "warmup_delay": 0}
                    h.edit_config({"add": wc_})
                    wmap[nm] = dict(wc_)
                    added.append(nm)
                n0 = len(k.spawn_log)
                r = w.request('reloadconfig', {"waiting": True})
                if case.get("periodic"):
                    w.advance_until(lambda: r.answered,
                                    w.loop.time() + 600.0)
                t_end = k.ncalls if case.get("periodic") else None
                w.drain()
                if (r.reply() or {}).get("status") != "ok":
                    classes.add('sequence-refused')
                    continue
                classes.add('reloadconfig-add-sequence')
                if len(set(p_ for (p_, n_) in sq["add"] if n_ > 0)) >= 2:
                    classes.add('multi-watcher-sequence')
                analyse('reloadconfig-add',
                        [r_ for r_ in k.spawn_log[n0:]
                         if r_["owner"] in added and
                         r_.get("excl") != 'manage_watchers' and
                         (t_end is None or r_["ncall"] <= t_end)],
                        wmap, added, gwarm, viols)
                continue
            if sq.get("set_warmup"):
                # the per-watcher delay is changed at run time
                names0 = sorted(wmap)
                tgt = names0[sq["set_warmup"][0] % len(names0)]
                r0 = w.request('set', {"name": tgt, "waiting": True,
                                       "options": {"warmup_delay":
                                                   sq["set_warmup"][1]}})
                w.drain()
                if (r0.reply() or {}).get("status") == "ok":
                    wmap[tgt]["warmup_delay"] = sq["set_warmup"][1]
                    classes.add('warmup-set-at-run-time')
            if sq.get("stop_first"):
                w.request('stop', {"waiting": True})
                w.drain()
            names_ = sorted(wmap)
            for idx in sq.get("stop_some", []):
                w.request('stop', {"name": names_[idx % len(names_)],
                                   "waiting": True})
                w.drain()
            for v in sq.get("pre_deaths", []):
                # a worker dies and nothing has noticed yet: the watcher is
                # active but short of a worker when the sequence begins
                live = w.live()
                if live:
                    k.external_death(live[v % len(live)], ["signal", 9])
                    classes.add('death-before-sequence')
            if sq.get("check_after_deaths"):
                w.full_check()
            for f in sq.get("faults", []):
                k.arm_fault(f[0], f[1], f[2])
            n0 = len(k.spawn_log)
            props = {"waiting": True}
            if sq.get("glob"):
                props["name"] = sq["glob"]
            stopped0 = None
            if kind == 'reload-terminate':
                # reload without graceful = every watcher is restarted
                props["graceful"] = False
                classes.add('reload-terminate-sequence')
            elif kind == 'reload-graceful':
                # a graceful reload *starts* the watchers it finds stopped
                # (the running ones get a new generation at once: not a
                # start, not judged)
                stopped0 = [n for n in wmap if h.status(n) == 'stopped']
                classes.add('reload-graceful-sequence')
            r = w.request('reload' if kind.startswith('reload-') else kind,
                          props)
            if case.get("periodic"):
                w.advance_until(lambda: r.answered, w.loop.time() + 600.0)
            t_end = k.ncalls if case.get("periodic") else None
            w.drain()
            k.disarm()
            rep = r.reply() or {}
            if rep.get("status") != "ok":
                classes.add('sequence-refused')
                continue
            import fnmatch
            matched = [n for n in wmap
                       if not sq.get("glob") or
                       fnmatch.fnmatch(n.lower(), sq["glob"].lower())]
            if len(matched) >= 2:
                classes.add('multi-watcher-sequence')
            analyse('%s%s' % (kind, '-glob' if sq.get("glob") else '-all'),
                    [r_ for r_ in k.spawn_log[n0:]
                     # (a periodic check that slips in between the end of
                     # the operation and its reply is not part of it)
                     if r_.get("excl") != 'manage_watchers' and
                     (t_end is None or r_["ncall"] <= t_end) and
                     (stopped0 is None or r_["owner"] in stopped0)],
                    wmap, matched, gwarm, viols)
        if w.blocked:
            viols.append(Violation('C19:blocked:%s' % w.blocked_where,
                                   'event loop blocked'))
        if k.faults_fired:
            classes.add('death-during-sequence')
    finally:
        h.close()
    autos = [wc for wc in case["watchers"] if wc.get("autostart", True)
             and wc.get("numprocesses", 1) > 0]
    nontrivial = (len(set(wc.get("priority", 0) for wc in autos)) >= 2 or
                  gwarm > 0 or any(wc.get("warmup_delay") for wc in autos))
    seen = set()
    out = []
    for v in viols:
        if v["signature"] not in seen:
            seen.add(v["signature"])
            out.append(v)
    return out, nontrivial, sorted(classes)


def replay(case):
    return execute(case)[0]


def _strategy():
    from hypothesis import strategies as st
    fault = st.tuples(st.integers(1, 30), st.integers(0, 5),
                      how_strategy()).map(list)

    @st.composite
    def case(draw):
        nw = draw(st.integers(1, 5))
        ws = []
        for i in range(nw):
            wc = {"name": "w%d" % i,
                  "numprocesses": draw(st.integers(0, 3)),
                  "priority": draw(st.integers(0, 2)),
                  "warmup_delay": draw(st.sampled_from([0, 0, 0.1, 0.5])),
                  "graceful_timeout": 0.2}
            if draw(st.integers(0, 4)) == 0:
                wc["autostart"] = False
            if draw(st.integers(0, 3)) == 0:
                wc["respawn"] = False
            ws.append(wc)
        od = []
        if draw(st.integers(0, 2)) == 0:
            od = draw(st.lists(st.integers(0, nw - 1), min_size=1,
                               max_size=3, unique=True))
        seqs = []
        if od and draw(st.integers(0, 3)) > 0:
            seqs.append({"kind": "socket-event"})
        for _ in range(draw(st.integers(0, 3))):
            if draw(st.integers(0, 5)) == 0:
                seqs.append({"kind": "reloadconfig-add", "add": draw(
                    st.lists(st.tuples(st.integers(0, 2),
                                       st.integers(0, 2)).map(list),
                             min_size=2, max_size=4))})
                continue
            if draw(st.integers(0, 4)) == 0:
                # some watchers stopped, another one active but short of a
                # worker (a death nothing has made up for), then a start of
                # all of them
                seqs.append({"kind": "start", "stop_first": False,
                             "faults": [],
                             "stop_some": draw(st.lists(
                                 st.integers(0, 4), min_size=1, max_size=2)),
                             "pre_deaths": draw(st.lists(
                                 st.integers(0, 7), min_size=1, max_size=3)),
                             "check_after_deaths": draw(st.booleans())})
                continue
            sq = {"kind": draw(st.sampled_from(['start', 'restart',
                                                'restart',
                                                'reload-terminate',
                                                'reload-graceful'])),
                  "stop_first": draw(st.booleans()),
                  "faults": draw(st.lists(fault, max_size=2))}
            if draw(st.integers(0, 2)) == 0:
                sq["glob"] = draw(st.sampled_from(['w*', 'w[0-2]', 'W*']))
            if not sq["stop_first"] and draw(st.booleans()):
                sq["stop_some"] = draw(st.lists(st.integers(0, 4),
                                                min_size=1, max_size=2))
            if draw(st.integers(0, 3)) == 0:
                sq["set_warmup"] = [draw(st.integers(0, 4)), draw(
                    st.sampled_from([0.5, 0.1, 1.5, 0.3, 1]))]
            if draw(st.integers(0, 2)) == 0:
                sq["pre_deaths"] = draw(st.lists(st.integers(0, 7),
                                                 min_size=1, max_size=2))
                sq["check_after_deaths"] = draw(st.booleans())
            seqs.append(sq)
        return {"watchers": ws,
                "global_warmup": draw(st.sampled_from([0, 0.2, 1])),
                "spawn_cost": draw(st.sampled_from([1e-6, 1e-6, 0.02,
                                                    0.045])),
                "start_faults": draw(st.lists(fault, max_size=2)),
                "periodic": draw(st.sampled_from([None, None, 0.2, 0.05])),
                "ondemand": od,
                "config": draw(st.integers(0, 3)) == 0,
                "sequences": seqs}
    return case()


def plan(tier, seed):
    n = 2000 if tier == 'quick' else 12000
    return [{"seed": seed * 100 + i, "n": n} for i in range(16)]


def run_shard(spec):
    stats = Stats()
    found = hyp_search(_strategy(), execute, stats, spec["seed"], spec["n"],
                       known=spec["known"])
    res = stats.as_dict()
    res["violations"] = found
    return res


def check_floors(counters, evaluations, tier):
    msgs = []
    for key, frac in (('multi-watcher-sequence', 0.25),
                      ('death-during-sequence', 0.14),
                      ('autostart-off', 0.1)):
        if counters.get(key, 0) < frac * evaluations:
            msgs.append("%s in only %d of %d cases" % (
                key, counters.get(key, 0), evaluations))
    return msgs
