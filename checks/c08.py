"""C08 - shutdown is complete; pid-file rules.

(sim)     SimWorld daemon in 'daemon' mode (the circusd code path) with real
          managed sockets: a quit request or SIGTERM/SIGINT/SIGQUIT is
          delivered at every loop step of a set of in-flight operations
          (enumeration) and at random points of generated histories.
(pidfile) Pidfile.create / unlink over generated file contents.
(live)    vfw/live.py: a real circusd process (exit status, /proc, files).
"""
import os
import shutil
import signal
import subprocess
import sys
import tempfile

from vfw.history import History, lifecycle_cases
from vfw.runner import Stats, Violation, hyp_search

PROPERTY = 'C08'
LEVEL = 'exploration'
RULE = ("sim-enum: operation in flight in {daemon start with global warm-up, "
        "restart, reload, incr with warm-up, stop with stubborn workers, "
        "periodic check respawning with warm-up, none} x shutdown trigger in "
        "{quit request, SIGTERM, SIGINT, SIGQUIT} x every loop step / timer "
        "jump of the operation.  sim-random: lifecycle histories with "
        "stubborn workers, workers stopped / continued by signal requests, "
        "output captured by a user-written stream class without close(), "
        "managed inet/unix sockets, then a trigger at a "
        "random point (optionally a second one).  pidfile: contents from "
        "{empty, blanks, garbage, non-UTF-8 bytes, negative, 0, own pid, pid "
        "of a live helper process, pid of a reaped one, integers of every "
        "magnitude, decorated numerals}.  Non-trivial = shutdown requested "
        "while an operation was in flight or with a stubborn worker / a "
        "pid-file content that is not a plain live or dead pid; distinct by "
        "hash of the case.")
ASSUMPTIONS = [
    "sim: Arbiter.start()'s blocking loop.start() is replaced by the "
    "harness-driven loop; its finally clause runs when loop.stop() was "
    "requested (vfw/world.py daemon mode); sys.exit and the pid-file "
    "unlink of circusd.main are covered by the live half",
    "after the daemon has exited its zombies are reaped by init: only "
    "*running* survivors are looked for in the simulation",
    "pidfile: a helper `sleep` process provides a live foreign pid; a "
    "decorated numeral (' 12', '+12', '1_2') may be treated either way",
]
SIGS = {"TERM": signal.SIGTERM, "INT": signal.SIGINT, "QUIT": signal.SIGQUIT}


def _bound(watchers, gwarm):
    gt = max([float(wc.get("graceful_timeout", 30)) for wc in watchers] + [0])
    warm = max([float(wc.get("warmup_delay", 0)) for wc in watchers] + [0])
    np_ = max([int(wc.get("numprocesses", 1)) for wc in watchers] + [1]) + 4
    return len(watchers) * 2 * (np_ + 1) * (gt + 0.2 + warm) + \
        (len(watchers) + 1) * gwarm + 2.0


def execute_sim(case):
    from circus.sockets import CircusSocket
    tmp = tempfile.mkdtemp(prefix='c08-')
    socks = []
    viols = []
    classes = set()
    h = None
    try:
        for i, kind in enumerate([] if case["history"].get("config")
                                 else case.get("sockets", [])):
            if kind == 'unix':
                socks.append(CircusSocket(
                    name='s%d' % i, path=os.path.join(tmp, 's%d.sock' % i)))
            elif kind == 'unix-dgram':
                import socket as _socket
                socks.append(CircusSocket(
                    name='s%d' % i, path=os.path.join(tmp, 's%d.sock' % i),
                    type=_socket.SOCK_DGRAM))
            else:
                socks.append(CircusSocket(name='s%d' % i, host='127.0.0.1',
                                          port=0))
        hc = dict(case["history"])
        if not hc.get("config"):
            hc["arbiter"] = dict(hc.get("arbiter") or {},
                                 sockets=list(socks))
        else:
            classes.add('config-file-history')
        gwarm = float((case["history"].get("arbiter") or {})
                      .get("warmup_delay", 0))
        h = History(hc)
        w = h.world
        k = w.kernel
        trig = case["trigger"]

        refused = [False]

        def fire(t):
            if t == 'quit':
                r = w.request('quit', {})
                rep = r.reply() or {}
                if rep.get("status") == "error":
                    refused[0] = True     # not an *accepted* quit
                else:
                    refused[0] = False
                return r
            refused[0] = False
            w.deliver_signal(SIGS[t])
            return None

        fired = [None]
        if case.get("during_start") is not None:
            # deliver the trigger after n loop steps of the daemon start
            w.start(drain=False)
            for _ in range(case["during_start"]):
                if not w.advance_to_next_timer():
                    w.step(1)
            busy = not w.quiescent()
            fire(trig)
            fired[0] = w.loop.time()
            if busy:
                classes.add('shutdown-during-operation')
        else:
            h.start()
            h.run()
            busy = not w.quiescent()
            if w.exited:
                # the history itself ended the daemon (quit / daemon-level
                # restart): there is nobody left to receive the trigger
                return [], False, ['exited-before-trigger']
            if busy:
                classes.add('shutdown-during-operation')
            fire(trig)
            fired[0] = w.loop.time()
            if case.get("second"):
                w.step(case.get("second_after", 1))
                fire(case["second"])
                classes.add('second-trigger')
        k.disarm()
        k.cancel_lifetimes()
        deadline = w.loop.time() + _bound(hc["watchers"], gwarm) * (
            3 if hc.get("config") else 1)
        w.advance_until(lambda: w.exited, deadline)
        if any(r["beh"].get("react") == 'ignore' for r in k.spawn_log):
            classes.add('stubborn-worker')
        what_busy = 'busy' if busy else 'idle'
        if w.blocked:
            viols.append(Violation('C08:blocked:%s' % w.blocked_where,
                                   'event loop blocked'))
        elif not w.exited and refused[0]:
            classes.add('quit-refused-while-busy')
        elif not w.exited:
            excl = getattr(w.arbiter, '_exclusive_running_command', None)
            viols.append(Violation(
                'C08:daemon-still-running:%s:%s' % (
                    'signal' if trig != 'quit' else 'quit', what_busy),
                '%s delivered at t=%.3f (daemon %s); %.1f s later the '
                'daemon has not exited; live workers %r' % (
                    trig, fired[0], what_busy, w.loop.time() - fired[0],
                    w.eff_live())))
        else:
            if w.exit_error:
                viols.append(Violation(
                    'C08:exit-error', 'closing down raised %s'
                    % w.exit_error))
            if w.exit_restarting and trig != 'quit':
                viols.append(Violation(
                    'C08:restarted-instead-of-exiting',
                    '%s was delivered at t=%.3f, yet the daemon left its '
                    'loop in order to restart, not to exit' % (
                        trig, fired[0])))
            k.apply_due()
            alive = w.eff_live()
            if alive:
                from checks.c04 import _leak_cause
                causes = sorted(set(_leak_cause(h, p) for p in alive))
                if causes != ['unknown']:
                    what_busy = '+'.join(causes)
                viols.append(Violation(
                    'C08:worker-survived-shutdown:%s' % what_busy,
                    'daemon exited, workers %r still run' % alive))
            if not w.ctrl.stream.closed:
                viols.append(Violation('C08:control-stream-open',
                                       'control stream not closed'))
            for s_ in w.context.sockets:
                if not s_.closed:
                    viols.append(Violation(
                        'C08:zmq-socket-open:%s' % s_.kind,
                        'zmq socket of kind %r left open' % s_.kind))
            for s_ in socks:
                if s_.fileno() != -1:
                    viols.append(Violation(
                        'C08:managed-socket-open',
                        'managed socket %s still open' % s_.name))
                if s_.is_unix and os.path.exists(s_.path):
                    viols.append(Violation(
                        'C08:unix-socket-file-left',
                        'socket file %s left behind' % s_.path))
        nontrivial = busy or 'stubborn-worker' in classes
    finally:
        if h is not None:
            h.close()
        for s_ in socks:
            try:
                s_.close()
            except Exception:
                pass
        shutil.rmtree(tmp, ignore_errors=True)
    seen = set()
    out = []
    for v in viols:
        if v["signature"] not in seen:
            seen.add(v["signature"])
            out.append(v)
    return out, nontrivial, sorted(classes)


# ---------------------------------------------------------------------------
# pid file
# ---------------------------------------------------------------------------

_HELPER = [None]


def _helper_pid():
    if _HELPER[0] is None or _HELPER[0].poll() is not None:
        _HELPER[0] = subprocess.Popen(['sleep', '600'])
    return _HELPER[0].pid


def _dead_pid():
    p = subprocess.Popen(['true'])
    p.wait()
    return p.pid


def execute_pidfile_other_user(case):
    """The daemon runs as an unprivileged user and the pid file names a live
    process of another user (kill(pid, 0) answers EPERM): that is a live
    foreign process, the file must be left alone.  Needs root to drop to
    'nobody'; inconclusive otherwise."""
    if os.geteuid() != 0:
        return [], False, ['pidfile', 'live-inconclusive']
    tmp = tempfile.mkdtemp(prefix='c08p-')
    viols = []
    try:
        os.chmod(tmp, 0o777)
        path = os.path.join(tmp, 'circusd.pid')
        content = ('%d\n' % _helper_pid()).encode()
        with open(path, 'wb') as f:
            f.write(content)
        os.chmod(path, 0o666)
        r_, w_ = os.pipe()
        pid = os.fork()
        if pid == 0:
            out = b'error'
            try:
                os.close(r_)
                os.setgroups([])
                os.setgid(65534)
                os.setuid(65534)
                from circus.pidfile import Pidfile
                try:
                    Pidfile(path).create(os.getpid())
                    out = b'created'
                except RuntimeError:
                    out = b'refused'
                except Exception as e:
                    out = ('raised-' + type(e).__name__).encode()
            finally:
                os.write(w_, out)
                os._exit(0)
        os.close(w_)
        outcome = os.read(r_, 100).decode()
        os.close(r_)
        os.waitpid(pid, 0)
        after = open(path, 'rb').read() if os.path.exists(path) else None
        if outcome == 'created' or after != content:
            viols.append(Violation(
                'C08:pidfile-live-foreign-pid:other-user:%s' % outcome,
                'pid file names a live process of another user (%r): '
                'create() as nobody %s, file now %r' % (content, outcome,
                                                        after)))
    finally:
        shutil.rmtree(tmp, ignore_errors=True)
    return viols, True, ['pidfile', 'pidfile-other-user']


def execute_pidfile(case):
    if case["content"] == '@live-other-user':
        return execute_pidfile_other_user(case)
    from circus.pidfile import Pidfile
    import re
    tmp = tempfile.mkdtemp(prefix='c08p-')
    viols = []
    try:
        path = os.path.join(tmp, 'circusd.pid')
        content = case["content"]
        live_other = False
        if content == '@live':
            content = ('%d\n' % _helper_pid()).encode()
            live_other = True
        elif content == '@live-nonl':
            content = ('%d' % _helper_pid()).encode()
            live_other = True
        elif content == '@dead':
            content = ('%d\n' % _dead_pid()).encode()
        elif content == '@own':
            content = ('%d\n' % os.getpid()).encode()
        elif content == '@absent':
            content = None
        else:
            try:
                content = content.encode('latin-1')
            except UnicodeEncodeError:
                content = content.encode('utf-8')
        if content is not None:
            with open(path, 'wb') as f:
                f.write(content)
        mypid = os.getpid()
        pf = Pidfile(path)
        outcome = 'created'
        try:
            pf.create(mypid)
        except RuntimeError:
            outcome = 'refused'
        except Exception as e:
            outcome = 'raised-' + type(e).__name__
        after = open(path, 'rb').read() if os.path.exists(path) else None
        plain = content is not None and re.fullmatch(rb'[0-9]+\n?', content)
        if plain and not live_other and _alive(int(content)) and \
                int(content) != mypid and int(content) > 0:
            live_other = True        # happens to name a live process
        decorated = content is not None and not plain and _int_ok(content)
        if live_other:
            if outcome != 'refused' or after != content:
                viols.append(Violation(
                    'C08:pidfile-live-foreign-pid:%s' % outcome,
                    'pid file names live process %r: create() %s, file now '
                    '%r' % (content, outcome, after)))
        elif decorated and _ival(content) > 0 and \
                _alive(_ival(content)) and _ival(content) != mypid:
            if not ((outcome == 'refused' and after == content) or
                    (outcome == 'created' and
                     after == ('%d\n' % mypid).encode())):
                viols.append(Violation(
                    'C08:pidfile-inconsistent:%s' % outcome,
                    'content %r: create() %s, file now %r' % (
                        content, outcome, after)))
        else:
            if outcome != 'created' or after != ('%d\n' % mypid).encode():
                kind = 'absent' if content is None else (
                    'huge-number' if plain and len(content) > 10 else
                    'garbled' if not plain else 'stale-pid')
                viols.append(Violation(
                    'C08:pidfile-not-taken-over:%s:%s' % (kind, outcome),
                    'pid file content %r is not a live foreign process: '
                    'create() %s, file now %r' % (
                        content[:40] if content else content, outcome,
                        after)))
            else:
                pf.unlink()
                if os.path.exists(path):
                    viols.append(Violation(
                        'C08:pidfile-not-removed',
                        'unlink() left the daemon\'s own pid file'))
        nontrivial = not (case["content"] in ('@live', '@dead', '@absent'))
    finally:
        shutil.rmtree(tmp, ignore_errors=True)
    return viols, nontrivial, ['pidfile']


def _ival(b):
    return int(b.decode('utf-8', 'replace'))


def _int_ok(b):
    try:
        int(b.decode('utf-8', 'replace'))
        return True
    except Exception:
        return False


def _alive(pid):
    try:
        os.kill(pid, 0)
        return True
    except OverflowError:
        return False
    except OSError as e:
        import errno
        return e.errno == errno.EPERM


def execute(case):
    if "token" in case:
        from vfw import live
        return live.execute_live(case, ('C08:live',))
    if "content" in case:
        return execute_pidfile(case)
    return execute_sim(case)


def replay(case):
    return execute(case)[0]


# ---------------------------------------------------------------------------

ENUM_OPS = {
    "none": [],
    "restart": [["req", "restart", {"name": "w0", "match": "simple"}]],
    "restart-all": [["req", "restart", {"name": "w*"}]],
    "reload-seq": [["req", "reload", {"name": "w0", "sequential": True}]],
    "incr": [["req", "incr", {"name": "w0", "nb": 2}]],
    "stop": [["req", "stop", {"name": "w0", "match": "simple"}]],
    "check-respawn": [["exit", 0, ["exit", 1]], ["exit", 0, ["exit", 1]],
                      ["check"]],
    "kill": [["req", "kill", {"name": "w0"}]],
    "arbiter-restart": [["req", "restart", {}]],
    # config-file worlds: the file is edited, then re-read
    "reloadconfig-removed": [["cfg", {"remove": "w0"}],
                             ["req", "reloadconfig", {}]],
    "reloadconfig-changed": [["cfg", {"set": ["w0", "cmd", "other"]}],
                             ["req", "reloadconfig", {}]],
    "reloadconfig-circus": [["cfg", {"circus": {"httpd_port": 8081}}],
                            ["req", "reloadconfig", {}]],
}


def _enum_case(opname, trig, steps, stubborn, during_start=None):
    watchers = [{"name": "w0", "numprocesses": 2, "graceful_timeout": 0.3,
                 "warmup_delay": 0.2},
                {"name": "w1", "numprocesses": 1, "graceful_timeout": 0.2}]
    hist = {"watchers": watchers, "tape": [],
            "default_beh": {"react": "ignore"} if stubborn else
            {"react": "die", "delay": 0.05},
            "arbiter": {"warmup_delay": 0.3},
            "ops": list(ENUM_OPS[opname]) + [["next"]] * steps}
    if opname.startswith('reloadconfig'):
        hist["config"] = True
        hist["arbiter"] = {"warmup_delay": 0}
        for wc in watchers:
            wc["warmup_delay"] = 0
    c = {"history": hist, "trigger": trig,
         "sockets": ["inet", "unix", "unix-dgram"]}
    if during_start is not None:
        c["during_start"] = during_start
    return c


def _enumerate(spec, stats):
    found = {}
    for (opname, stubborn) in spec["ops"]:
        for trig in ('quit', 'TERM', 'INT', 'QUIT'):
            for steps in range(0, 9):
                if opname == 'start':
                    case = _enum_case('none', trig, 0, stubborn,
                                      during_start=steps)
                else:
                    case = _enum_case(opname, trig, steps, stubborn)
                v, nt, cl = execute(case)
                stats.record(case, nt, cl)
                for x in v:
                    if x["signature"] in spec["known"]:
                        stats.known_hits[x["signature"]] = \
                            stats.known_hits.get(x["signature"], 0) + 1
                    elif x["signature"] not in found:
                        found[x["signature"]] = {
                            "signature": x["signature"],
                            "message": x["message"], "case": case}
    return list(found.values())


def _sim_strategy():
    from hypothesis import strategies as st
    base = lifecycle_cases(
        requests=('incr', 'decr', 'set', 'restart', 'reload', 'stop',
                  'start'), kill_cmd=True, hooks=True, max_ops=16,
        set_other=True, config=True, signal_cmd=True, job_control=True)
    trig = st.sampled_from(['quit', 'TERM', 'INT', 'QUIT'])

    @st.composite
    def case(draw):
        hist = draw(base)
        for wc in hist["watchers"]:
            if draw(st.integers(0, 3)) == 0:
                # output goes to a user-written stream class: callable,
                # and nothing else (close() is optional)
                if hist.get("config"):
                    wc["stdout_stream.class"] = 'vfw.streams.NoCloseStream'
                else:
                    wc["stdout_stream"] = {
                        "class": 'vfw.streams.NoCloseStream'}
        hist["default_beh"] = draw(st.sampled_from(
            [{"react": "ignore"}, {"react": "die", "delay": 0.0},
             {"react": "die", "delay": 0.15}]))
        c = {"history": hist, "trigger": draw(trig),
             "sockets": draw(st.lists(st.sampled_from(
                 ['inet', 'unix', 'unix-dgram']), max_size=3))}
        if draw(st.integers(0, 3)) == 0:
            c["second"] = draw(trig)
            c["second_after"] = draw(st.integers(0, 3))
        if draw(st.integers(0, 4)) == 0:
            c["during_start"] = draw(st.integers(0, 6))
        return c
    return case()


def _pid_strategy():
    from hypothesis import strategies as st
    special = st.sampled_from(['@live', '@live-nonl', '@live-other-user',
                               '@dead', '@own',
                               '@absent', '', ' ', '\n', '\n\n', '0', '-1',
                               '-0', '00', 'abc', '12abc', '1 2', '0x10',
                               '\xff\xfe', '\x00', '1.5', '1e3', '+5',
                               ' 5 ', '1_0', '٣', '99999999999',
                               '9' * 30, '4194305', '2147483648',
                               '4294967296', '18446744073709551616'])
    numbers = st.integers(0, 2 ** 70).map(str)
    garbage = st.binary(max_size=12).map(lambda b: b.decode('latin-1'))
    return st.one_of(special, special, numbers, garbage).map(
        lambda c: {"content": c})


def plan(tier, seed):
    ops = [(o, s) for o in sorted(ENUM_OPS) + ['start']
           for s in (False, True)]
    shards = [[] for _ in range(6)]
    for i, o in enumerate(ops):
        shards[i % 6].append(o)
    specs = [{"kind": "enum", "ops": s} for s in shards if s]
    n = 500 if tier == 'quick' else 8000
    specs += [{"kind": "sim", "seed": seed * 100 + i, "n": n}
              for i in range(8)]
    specs += [{"kind": "pidfile", "seed": seed * 100 + 90,
               "n": 400 if tier == 'quick' else 5000}]
    specs += [{"kind": "live", "seed": seed * 100 + 70 + i,
               "n": 3 if tier == 'quick' else 40} for i in range(3)]
    return specs


def run_shard(spec):
    stats = Stats()
    if spec["kind"] == 'enum':
        found = _enumerate(spec, stats)
        res = stats.as_dict()
        res["violations"] = found
        return res
    if spec["kind"] == 'live':
        from vfw import live
        found = hyp_search(live.strategy(), execute, stats, spec["seed"],
                           spec["n"], known=spec["known"], max_rounds=2,
                           shrink=False)
        res = stats.as_dict()
        res["violations"] = found
        res["inconclusive"] = stats.counters.get('live-inconclusive', 0)
        return res
    strat = _sim_strategy() if spec["kind"] == 'sim' else _pid_strategy()
    try:
        found = hyp_search(strat, execute, stats, spec["seed"], spec["n"],
                           known=spec["known"], max_rounds=6)
    finally:
        if _HELPER[0] is not None:
            _HELPER[0].kill()
            _HELPER[0].wait()
            _HELPER[0] = None
    res = stats.as_dict()
    res["violations"] = found
    return res


def check_floors(counters, evaluations, tier):
    msgs = []
    for key, n in (('shutdown-during-operation', 300),
                   ('stubborn-worker', 300), ('pidfile', 100)):
        if counters.get(key, 0) < n:
            msgs.append("%s in only %d cases" % (key, counters.get(key, 0)))
    return msgs
