"""C04 - process accounting is exact.

The daemon's *replies* (list, numprocesses, stats, status) are cross-checked
against the simulated kernel's process table at quiescent points.
"""
import json

from vfw.history import History, lifecycle_cases
from vfw.runner import Stats, Violation, hyp_search

PROPERTY = 'C04'
LEVEL = 'exploration'
RULE = ("histories: 1-3 watchers with spawn-phase hooks (true/false/raise x "
        "ignore flag), exec failures at the n-th attempt, <= 30 ops from the "
        "full request set (incr, decr, set, start, stop, restart, reload, rm "
        "with and without nostop, kill, signal; config-file edits + reloadconfig "
        "in a third of the cases), worker deaths and deaths at "
        "the k-th next kernel call.  enumeration: start/restart/incr under "
        "each spawn-path failure x a death at every kernel-call boundary.  "
        "Non-trivial = a quiescent point was reached after >= 1 failure-path "
        "event (hook false/raise, exec error, death at a boundary); distinct "
        "by hash of the case.")
ASSUMPTIONS = [
    "verdicts are relative to the simulated kernel (vfw/kernel.py)",
    "children of watchers removed with nostop are exempt (documented)",
    "a running process that has been sent SIGKILL is counted as terminating "
    "(kill latency), not as leaked",
]


def _leak_cause(h, pid):
    """Why a live worker may have dropped out of the table: narrows the
    signature to the trigger."""
    k = h.world.kernel
    owner = k.procs[pid].owner
    hk = [e for e in h.hook_log if e["watcher"] == owner and
          e["kw"].get("pid") == pid and e["hook"] == 'after_spawn'
          and e["outcome"] != 'true']
    if hk:
        return 'after_spawn-%s' % hk[0]["outcome"]
    return 'unknown'


def accounting(h, names, removed_nostop, after_check, where,
               check_started=None):
    """Cross-check replies against the kernel table at a quiescent point."""
    w = h.world
    k = w.kernel
    viols = []
    k.apply_due()
    wl = h.watcher_names()
    if wl is None:
        return viols
    listed = {}
    per_watcher = {}
    for name in wl:
        pids = h.pids(name)
        st = h.status(name)
        n = h.numprocesses(name)
        rs = w.probe('stats', {'name': name})
        stat_pids = sorted(int(p) for p in (rs or {}).get('info', {}) or {})
        if pids is None or n is None:
            viols.append(Violation(
                'C04:probe-failed', 'list/numprocesses of %s failed' % name))
            continue
        per_watcher[name] = n
        for p in pids:
            listed.setdefault(p, []).append(name)
            if k.state(p) != 'running':
                viols.append(Violation(
                    'C04:phantom:%s' % where, 'watcher %s lists pid %d which '
                    'is %s in the kernel' % (name, p, k.state(p))))
            elif k.procs[p].owner != name:
                viols.append(Violation(
                    'C04:wrong-owner', 'watcher %s lists pid %d spawned for '
                    '%s' % (name, p, k.procs[p].owner)))
        if st not in ('active', 'stopped'):
            viols.append(Violation(
                'C04:transient-status:%s' % st, 'watcher %s reports status '
                '%r at a quiescent point (%s)' % (name, st, where)))
        if st == 'stopped':
            run = [p for p in w.eff_live(name) if p not in removed_nostop]
            if n != 0 or pids or run:
                viols.append(Violation(
                    'C04:stopped-with-processes:%s' % (
                        'running:' + '+'.join(sorted(set(
                            _leak_cause(h, p) for p in run)))
                        if run else 'reported'),
                    'watcher %s is stopped but reports numprocesses=%r, '
                    'list=%r; kernel-live workers spawned for it: %r' % (
                        name, n, pids, run)))
        if after_check:
            if n != len(pids) or stat_pids != sorted(pids):
                dead = [p for p in stat_pids if p not in pids]
                viols.append(Violation(
                    'C04:dead-pid-listed-after-check',
                    'after a complete check watcher %s reports '
                    'numprocesses=%d, stats pids %r but only %r are active '
                    '(dead entries %r)' % (name, n, stat_pids, pids, dead)))
    # the daemon-wide answers agree with the per-watcher ones
    tot = w.probe('numprocesses', {})
    nw = w.probe('numwatchers', {})
    if tot is not None and tot.get("numprocesses") != sum(
            per_watcher.values()) and len(per_watcher) == len(wl):
        viols.append(Violation(
            'C04:daemon-wide-count',
            'numprocesses without a name answers %r, the watchers report '
            '%r (%s)' % (tot.get("numprocesses"), per_watcher, where)))
    if nw is not None and nw.get("numwatchers") != len(wl):
        viols.append(Violation(
            'C04:daemon-wide-count:watchers',
            'numwatchers answers %r, list names %r' % (
                nw.get("numwatchers"), wl)))
    for p, ws in listed.items():
        if len(ws) > 1:
            viols.append(Violation(
                'C04:listed-twice', 'pid %d listed under %r' % (p, ws)))
    for p in w.eff_live():
        owner = k.procs[p].owner
        if p in removed_nostop:
            continue
        if p not in listed:
            cause = _leak_cause(h, p)
            rec = k.procs[p].rec or {}
            viols.append(Violation(
                'C04:untracked-live-worker:%s' % cause,
                'worker %d (spawned for %s at t=%.3f) is running but no '
                'watcher reports it (%s); behaviour %r' % (
                    p, owner, k.procs[p].spawned_at, where,
                    rec.get("beh"))))
    if after_check:
        # a worker the check itself terminated may die after the check's
        # reaping sweep; it is the next check's to collect.  Only zombies that
        # were already dead when the check began have outlived a check.
        died = dict((d["pid"], d["t"]) for d in k.death_log)
        old = [p for p in k.zombies()
               if check_started is None or
               died.get(p, -1.0) < check_started - 1e-9]
        if old:
            viols.append(Violation(
                'C04:zombie-after-check', 'zombie children %r, dead before '
                'the check began, remain after a complete periodic check'
                % old))
    return viols


def execute(case):
    h = History(case)
    w = h.world
    k = w.kernel
    viols = []
    classes = set()
    names = [wc["name"] for wc in case["watchers"]]
    removed_nostop = set()
    qpoints = [0]

    def on_op(h_, i, op):
        if op[0] == 'req' and op[1] == 'rm' and op[2].get("nostop"):
            rep = h_.reqs[i].reply()
            if rep is None or rep.get("status") == "ok":
                # the workers of this incarnation are deliberately left
                # alone (a later add / reloadconfig may reuse the name)
                removed_nostop.update(
                    p.pid for p in k.procs.values()
                    if p.owner == op[2].get("name"))
        if w.quiescent() and not w.exited and not viols:
            unanswered = [r for r in w.requests if not r.answered and
                          r.command not in ('status', 'list', 'numprocesses',
                                            'stats')]
            if not unanswered:
                qpoints[0] += 1
                viols.extend(accounting(h_, names, removed_nostop, False,
                                        'mid-history'))

    try:
        h.start()
        h.run(on_op)
        ok = h.settle(checks=0)
        t_check = w.loop.time()
        if ok and not w.exited:
            w.full_check()
            ok = w.quiescent()
        if w.blocked:
            viols.append(Violation('C04:blocked:%s' % w.blocked_where,
                                   'event loop blocked'))
        elif ok and not w.exited:
            qpoints[0] += 1
            viols.extend(accounting(h, names, removed_nostop, True,
                                    'after-check', check_started=t_check))
        elif not w.exited:
            viols.append(Violation('C04:no-quiescence', 'not quiescent'))
        failure_events = (
            len([e for e in h.hook_log if e["outcome"] != 'true']) +
            len([r for r in k.spawn_log if r.get("failed")]) +
            len(k.faults_fired))
        if failure_events:
            classes.add('failure-path-event')
        if [e for e in h.hook_log if e["outcome"] != 'true']:
            classes.add('hook-false-or-raise')
        if [r for r in k.spawn_log if r.get("failed")]:
            classes.add('exec-failure')
        if k.faults_fired:
            classes.add('fault-fired')
    finally:
        h.close()
    # de-duplicate by signature
    seen = set()
    out = []
    for v in viols:
        if v["signature"] not in seen:
            seen.add(v["signature"])
            out.append(v)
    return out, ('failure-path-event' in classes and qpoints[0] > 0), \
        sorted(classes)


def replay(case):
    return execute(case)[0]


def _strategy():
    return lifecycle_cases(hooks=True, exec_fail=True, children=2,
                           max_watchers=3, kill_cmd=True, signal_cmd=True,
                           respawn_false=True, rm=True, set_other=True,
                           config=True, job_control=True, ondemand=True,
                           capture=True, never_exec=True)


HOOKSETS = {
    "none": None,
    "after_spawn-false": {"after_spawn": ["false", False]},
    "after_spawn-raise": {"after_spawn": ["raise", False]},
    "before_spawn-raise": {"before_spawn": ["raise", False]},
    "after_start-false": {"after_start": ["false", False]},
    "before_start-false": {"before_start": ["false", False]},
}


def _scenario(np_, hookset, fail_at, cmd, stubborn):
    wc = {"name": "w0", "numprocesses": np_, "graceful_timeout": 0.2,
          "autostart": cmd != 'start' or True}
    if HOOKSETS[hookset]:
        wc["hooks"] = HOOKSETS[hookset]
    beh = {"react": "ignore"} if stubborn else {"react": "die", "delay": 0.0}
    tape = []
    for i in range(6):
        b = dict(beh)
        if fail_at is not None and i == fail_at:
            b["exec_fail"] = True
        tape.append(b)
    props = {"name": "w0", "waiting": True}
    if cmd in ('start', 'restart'):
        props["match"] = "simple"
    ops = []
    if cmd == 'start':
        ops += [["req", "stop", {"name": "w0", "match": "simple",
                                 "waiting": True}], ["drain"]]
    ops += [["req", cmd, props], ["drain"], ["check"], ["drain"]]
    return {"watchers": [wc, {"name": "w1", "numprocesses": 1,
                              "graceful_timeout": 0.2}],
            "tape": tape, "ops": ops}


def _count(case):
    h = History(case)
    try:
        h.start()
        n0 = h.world.kernel.ncalls
        h.run()
        return h.world.kernel.ncalls - n0
    finally:
        h.close()


def _enumerate(spec, stats):
    found = {}
    for scen in spec["scenarios"]:
        base = _scenario(*scen)
        n = _count(base)
        stats.count('scenario')
        stats.count('boundaries', n)
        for kk in range(0, n + 1):
            for how in ([["exit", 0], ["signal", 9]] if kk else [None]):
                case = dict(base)
                if kk:
                    # arm after the optional stop prefix has completed
                    ops = list(base["ops"])
                    pos = 2 if ops[0][1] == 'stop' else 0
                    ops.insert(pos, ["fault", kk, 0, how])
                    case["ops"] = ops
                v, nt, cl = execute(case)
                stats.record(case, nt, cl)
                for x in v:
                    if x["signature"] in spec["known"]:
                        stats.known_hits[x["signature"]] = \
                            stats.known_hits.get(x["signature"], 0) + 1
                    elif x["signature"] not in found:
                        found[x["signature"]] = {
                            "signature": x["signature"],
                            "message": x["message"], "case": case}
    return list(found.values())


def plan(tier, seed):
    scen = [(np_, hs, fa, cmd, stub)
            for np_ in (1, 2)
            for hs in sorted(HOOKSETS)
            for fa in (None, 0, 1)
            for cmd in ('start', 'restart', 'incr')
            for stub in (False, True)]
    if tier == 'quick':
        scen = [s for i, s in enumerate(scen) if i % 3 == 0]
    shards = [[] for _ in range(8)]
    for i, s in enumerate(scen):
        shards[i % 8].append(s)
    specs = [{"kind": "enum", "scenarios": s} for s in shards if s]
    n = 1500 if tier == "quick" else 12000
    specs += [{"kind": "random", "seed": seed * 100 + i, "n": n}
              for i in range(8)]
    return specs


def run_shard(spec):
    stats = Stats()
    if spec["kind"] == 'enum':
        found = _enumerate(spec, stats)
        res = stats.as_dict()
        res["violations"] = found
        return res
    found = hyp_search(_strategy(), execute, stats, spec["seed"], spec["n"],
                       known=spec["known"], max_rounds=6)
    res = stats.as_dict()
    res["violations"] = found
    return res


def check_floors(counters, evaluations, tier):
    msgs = []
    for key, frac in (('failure-path-event', 0.2),
                      ('hook-false-or-raise', 0.1), ('exec-failure', 0.05)):
        if counters.get(key, 0) < frac * evaluations:
            msgs.append("%s in only %d of %d cases" % (
                key, counters.get(key, 0), evaluations))
    return msgs
