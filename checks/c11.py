"""C11 - a request refused as invalid or conflicting changes nothing.

Metamorphic check: valid circusctl-shaped requests are corrupted in the ways
the statement lists; whenever the daemon answers with an error synchronously,
a snapshot taken immediately before handle_message must equal the one taken
immediately after it returns (no loop iteration in between).
"""
import copy
import json

from vfw.history import History
from vfw.runner import Stats, Violation, hyp_search, case_hash

PROPERTY = 'C11'
LEVEL = 'exploration'
RULE = ("case = daemon state (watchers a: active np 2, S: active singleton, "
        "b: stopped, optional in-flight restart with stubborn workers, "
        "optional endpoint-owner mode) + 1-4 requests, each a valid request "
        "for one of the registered commands corrupted by one or two of: "
        "dropped required property, wrong JSON type, unknown watcher, unknown "
        "command, unknown option key / ill-typed / invalid option value at "
        "any position of a multi-option set or add, bad signal, duplicate "
        "name in another letter case, conflict with the in-flight operation, "
        "uid different from the endpoint owner, invalid JSON.  Oracle: if "
        "the synchronous reply is an error, snapshot(list, numwatchers, "
        "statuses, options, numprocesses, pids, kernel spawn/signal log "
        "lengths, event count) is unchanged.  Non-trivial = the corrupted "
        "request reached the command's validate (known command, object "
        "properties) and was refused; distinct by (command, corruption "
        "kinds, position).")
ASSUMPTIONS = [
    "both snapshots are taken synchronously around handle_message; "
    "read-only probes are served without running the loop",
    "no claim when the daemon answers ok or answers later",
    "verdicts are relative to the simulated kernel",
]

WATCHERS = [
    {"name": "a", "numprocesses": 2, "graceful_timeout": 0.3},
    {"name": "S", "numprocesses": 1, "singleton": True,
     "graceful_timeout": 0.2},
    {"name": "b", "numprocesses": 1, "autostart": False,
     "graceful_timeout": 0.2},
]


def snapshot(h):
    w = h.world
    k = w.kernel

    def strip(r):
        if not isinstance(r, dict):
            return r
        return dict((kk, vv) for kk, vv in r.items()
                    if kk not in ('time', 'id'))
    snap = {"list": strip(w.probe('list', {})),
            "numwatchers": strip(w.probe('numwatchers', {})),
            "statuses": strip(w.probe('status', {})),
            "nspawn": len(k.spawn_log), "nsignal": len(k.signal_log),
            "nevents": len(w.events), "per": {}}
    names = (snap["list"] or {}).get("watchers") or []
    for n in names:
        snap["per"][n] = {
            "options": strip(w.probe('options', {"name": n})),
            "numprocesses": strip(w.probe('numprocesses', {"name": n})),
            "pids": strip(w.probe('list', {"name": n}))}
    return snap


def _diff(a, b, path=''):
    if type(a) != type(b):
        return ['%s: %r -> %r' % (path, a, b)]
    if isinstance(a, dict):
        out = []
        for kk in sorted(set(a) | set(b)):
            if kk not in a or kk not in b:
                out.append('%s/%s: %r -> %r' % (path, kk, a.get(kk, '<absent>'),
                                               b.get(kk, '<absent>')))
            else:
                out.extend(_diff(a[kk], b[kk], path + '/' + str(kk)))
        return out
    if a != b:
        return ['%s: %r -> %r' % (path, a, b)]
    return []


def _has_bad_key_or_type(options):
    """the request as sent carries an unknown option key or an ill-typed
    option value (rather than a well-typed value that is refused later)"""
    if not isinstance(options, dict):
        return True
    for kk, vv in options.items():
        if kk == 'bogus_key':
            return True
        if kk in BAD_TYPED and BAD_TYPED[kk] == vv and \
                type(BAD_TYPED[kk]) == type(vv):
            return True
    return False


def execute(case):
    hc = {"watchers": copy.deepcopy(WATCHERS), "ops": [],
          "tape": [], "default_beh": dict(
              case.get("default_beh") or {"react": "ignore"},
              children=[{"react": "die", "delay": 0.0}])}
    if case.get("owner_mode"):
        hc["arbiter"] = {"endpoint": "ipc:///nonexistent/verif.sock",
                         "endpoint_owner": "root"}
    h = History(hc)
    w = h.world
    viols = []
    classes = set()
    nontrivial = False
    try:
        h.start()
        if case.get("inflight"):
            w.request('restart', {"name": "a", "match": "simple"})
            w.step(1)
            classes.add('operation-in-flight')
        for msg in case["messages"]:
            if w.dead or w.exited:
                break
            before = snapshot(h)
            sent_options = None
            if msg.get("raw") is not None:
                req = w.send_raw(msg["raw"].encode('latin-1'))
            else:
                val = copy.deepcopy(msg["value"])
                pr = val.get("properties")
                if isinstance(pr, dict) and isinstance(
                        pr.get("options"), dict) and \
                        "__pairs__" in pr["options"]:
                    od = {}
                    for kk_, vv_ in pr["options"]["__pairs__"]:
                        od[kk_] = vv_
                    pr["options"] = od
                if isinstance(pr, dict) and ("@worker" in pr.values() or
                                             "@child" in pr.values()):
                    nm = pr.get("name")
                    live = w.live(nm) if isinstance(nm, str) else []
                    wk = live[0] if live else 99999
                    kids = w.kernel.children_of(wk) if live else []
                    for kk_, vv_ in list(pr.items()):
                        if vv_ == "@worker":
                            pr[kk_] = wk
                        elif vv_ == "@child":
                            pr[kk_] = kids[0] if kids else 99998
                if isinstance(pr, dict):
                    sent_options = pr.get("options")
                req = w.send_raw(json.dumps(val).encode())
            after = snapshot(h)
            rep = req.reply() if req.sync_replies else None
            kinds = msg.get("kinds") or ['valid']
            tag = '%s:%s' % (msg.get("command"), '+'.join(kinds))
            if rep is None:
                classes.add('deferred-or-no-reply')
            elif rep.get("status") == "error":
                classes.add('refused')
                errno_ = rep.get("errno")
                reason = str(rep.get("reason"))
                reached = msg.get("raw") is None and \
                    'unknown-command' not in kinds
                if reached:
                    nontrivial = True
                    classes.add('refused-after-reaching-validate')
                if 'arbiter is already running' in reason:
                    classes.add('refused-conflict')
                    # the refusal itself must not change anything either:
                    # the operation in flight still holds the slot, so an
                    # identical request is refused again (the first refusal
                    # and this one are sent back to back, nothing ran)
                    if msg.get("raw") is None and not w.exited:
                        again = w.send_raw(json.dumps(val).encode())
                        rep2 = again.reply() if again.sync_replies else None
                        if rep2 is None or rep2.get("status") != "error" or \
                                'arbiter is already running' not in str(
                                    rep2.get("reason")):
                            viols.append(Violation(
                                'C11:conflict-refusal-released-the-slot',
                                'request %s was refused with the conflict '
                                'error; the same request sent again at once '
                                'was answered %r' % (
                                    json.dumps(val)[:160],
                                    {x: (rep2 or {}).get(x)
                                     for x in ('status', 'reason')})))
                        after = snapshot(h)
                d = _diff(before, after)
                if d and msg.get("command") == 'set' and all(
                        x.startswith('/nevents') or '/options/' in x
                        for x in d):
                    # one root cause whatever the position: options are
                    # applied one by one, a later one raised
                    if 'arbiter is already running' in reason or \
                            'arbiter is restarting' in reason:
                        tag = 'set:options-applied-despite-conflict'
                    elif _has_bad_key_or_type(sent_options):
                        tag = 'set:applied-before-key-or-type-validation'
                    else:
                        tag = ('set:earlier-options-applied-before-the-'
                               'invalid-one')
                if d:
                    viols.append(Violation(
                        'C11:refused-request-had-effect:%s' % tag,
                        'request %s answered error (%s, errno %r) yet the '
                        'daemon changed: %s' % (
                            json.dumps(msg.get("value"))[:200]
                            if msg.get("raw") is None else repr(msg["raw"]),
                            reason[:80], errno_, '; '.join(d)[:400])))
            else:
                classes.add('accepted')
            w.drain(60.0) if not case.get("inflight") else w.run_idle()
    finally:
        h.close()
    return viols, nontrivial, sorted(classes)


def replay(case):
    return execute(case)[0]


# ---------------------------------------------------------------------------
# valid requests (the shapes circusctl's message() methods build)
# ---------------------------------------------------------------------------
REQUIRED = {'add': ['name', 'cmd'], 'decr': ['name'], 'incr': ['name'],
            'get': ['name', 'keys'], 'kill': ['name'],
            'signal': ['name', 'signum'], 'set': ['name', 'options'],
            'rm': ['name'], 'options': ['name']}

OPTION_POOL = [("numprocesses", 2), ("warmup_delay", 0.5),
               ("graceful_timeout", 7), ("max_retry", 3),
               ("send_hup", True), ("stop_signal", 2),
               ("stop_children", True), ("respawn", False),
               ("max_age", 0), ("max_age_variance", 5),
               ("env", {"K": "v"}), ("working_dir", "/tmp"),
               ("shell", False), ("cmd", "other --x")]
BAD_TYPED = {"numprocesses": "2", "warmup_delay": "x",
             "graceful_timeout": "7", "max_retry": 1.5, "send_hup": "yes",
             "stop_signal": "TERM", "stop_children": 1, "respawn": "no",
             "max_age": None, "env": "K=v", "shell": 0,
             "max_age_variance": [1]}
BAD_VALUE = [("numprocesses", 3, 'S'), ("uid", "no-such-user-xyz", None),
             ("gid", "no-such-group-xyz", None),
             ("hooks", {"before_start": "no_such_module_xyz.fn"}, None),
             ("stdout_stream", {"class": "no_such_module_xyz.Cls"}, None)]


def _strategy():
    from hypothesis import strategies as st
    names = st.sampled_from(['a', 'S', 'b'])

    @st.composite
    def options(draw, nmax=4):
        pairs = draw(st.lists(st.sampled_from(OPTION_POOL), min_size=1,
                              max_size=nmax, unique_by=lambda p: p[0]))
        return [list(p) for p in pairs]

    @st.composite
    def valid(draw):
        cmd = draw(st.sampled_from(
            ['add', 'add', 'decr', 'incr', 'get', 'kill', 'signal', 'set',
             'set', 'set', 'start', 'stop', 'restart', 'reload', 'rm',
             'options', 'status', 'list', 'numprocesses', 'stats',
             'reloadconfig', 'numwatchers', 'globaloptions']))
        n = draw(names)
        if cmd == 'add':
            # (the last one: a lone surrogate, legal in JSON text, which no
            # encoding can put on the event channel)
            p = {"name": draw(st.sampled_from(['new', 'N2', 'new', 'N2',
                                               'x\ud800'])),
                 "cmd": "prog --wid $(circus.wid)",
                 "start": draw(st.booleans())}
            if draw(st.booleans()):
                p["options"] = draw(options())
            if draw(st.booleans()):
                p["args"] = ["x"]
        elif cmd in ('incr', 'decr'):
            p = {"name": n, "nb": draw(st.integers(1, 2))}
        elif cmd == 'get':
            p = {"name": n, "keys": ["numprocesses"]}
        elif cmd == 'kill':
            p = {"name": n}
            if draw(st.booleans()):
                p["signum"] = draw(st.sampled_from([15, "TERM", "sigint"]))
            if draw(st.booleans()):
                p["graceful_timeout"] = 0.2
            if draw(st.integers(0, 3)) == 0:
                p["pid"] = "@worker"
        elif cmd == 'signal':
            p = {"name": n, "signum": draw(st.sampled_from(
                [15, "HUP", "usr1"]))}
            if draw(st.booleans()):
                p["children"] = True
            elif draw(st.booleans()):
                # resolved when the message is sent: first live worker of
                # the named watcher / its first child
                p["pid"] = "@worker"
                if draw(st.booleans()):
                    p["childpid"] = "@child"
        elif cmd == 'set':
            p = {"name": n, "options": draw(options())}
        elif cmd in ('start', 'stop', 'restart'):
            p = {"name": n, "match": "simple"} if draw(st.booleans()) \
                else {"name": n}
        elif cmd == 'reload':
            p = {"name": n, "graceful": draw(st.booleans()),
                 "sequential": draw(st.booleans())}
        elif cmd in ('rm', 'options', 'status', 'list', 'numprocesses',
                     'stats'):
            p = {"name": n}
        else:
            p = {}
        if cmd in ('incr', 'decr', 'set', 'start', 'stop', 'restart',
                   'reload', 'rm', 'kill') and draw(st.booleans()):
            p["waiting"] = True
        return cmd, p

    wrong = st.sampled_from([None, 5, "s", [], {}, True, 1.5, ["a"]])

    @st.composite
    def message(draw):
        cmd, p = draw(valid())
        kinds = []
        raw = None
        nk = draw(st.sampled_from([1, 1, 1, 2]))
        for _ in range(nk):
            kind = draw(st.sampled_from(
                ['drop-required', 'wrong-type', 'unknown-watcher',
                 'unknown-command', 'unknown-option-key',
                 'ill-typed-option', 'invalid-option-value', 'bad-signal',
                 'dup-name-case', 'owner-mismatch', 'invalid-json',
                 'ill-typed-envelope', 'childpid-without-pid', 'none']))
            opts = p.get("options")
            if kind == 'drop-required' and REQUIRED.get(cmd):
                req_keys = list(REQUIRED[cmd])
                if cmd == 'signal' and 'childpid' in p and 'pid' in p:
                    # childpid is only meaningful together with pid
                    req_keys += ['pid', 'pid']
                key = draw(st.sampled_from(req_keys))
                if key in p:
                    del p[key]
                    kinds.append('drop-required:' + key)
            elif kind == 'wrong-type' and p:
                key = draw(st.sampled_from(sorted(p)))
                v = draw(wrong)
                if type(v) != type(p[key]) and key != 'options':
                    p[key] = v
                    kinds.append('wrong-type:' + key)
                elif key == 'options':
                    p[key] = draw(st.sampled_from([None, 5, "s", ("x",)]))
                    kinds.append('wrong-type:options')
            elif kind == 'unknown-watcher' and 'name' in p and cmd != 'add':
                p["name"] = draw(st.sampled_from(['zz', 'aa', '']))
                kinds.append('unknown-watcher')
            elif kind == 'unknown-command':
                cmd = draw(st.sampled_from(['frobnicate', 'sett', '']))
                kinds.append('unknown-command')
            elif kind in ('unknown-option-key', 'ill-typed-option',
                          'invalid-option-value') and isinstance(opts, list):
                pos = draw(st.integers(0, len(opts)))
                if kind == 'unknown-option-key':
                    opts.insert(pos, ["bogus_key", 1])
                elif kind == 'ill-typed-option':
                    key = draw(st.sampled_from(sorted(BAD_TYPED)))
                    opts[:] = [o for o in opts if o[0] != key]
                    pos = min(pos, len(opts))
                    opts.insert(pos, [key, BAD_TYPED[key]])
                else:
                    key, val, only = draw(st.sampled_from(BAD_VALUE))
                    if only is not None and cmd == 'set':
                        p["name"] = only
                    elif only is not None:
                        # add: make the new watcher a singleton
                        opts[:] = [o for o in opts if o[0] != 'singleton']
                        opts.insert(0, ["singleton", True])
                        pos += 1
                    opts[:] = [o for o in opts if o[0] != key]
                    pos = min(pos, len(opts))
                    opts.insert(pos, [key, val])
                kinds.append('%s@%d/%d' % (kind, pos, len(opts)))
            elif kind == 'bad-signal' and cmd in ('kill', 'signal'):
                p["signum"] = draw(st.sampled_from(
                    ["bogus", "SIG", "", "TERM!", "99x"]))
                kinds.append('bad-signal')
            elif kind == 'dup-name-case' and cmd == 'add':
                p["name"] = draw(st.sampled_from(['A', 's', 'B', 'a']))
                kinds.append('dup-name-case')
            elif kind == 'owner-mismatch' and cmd == 'add':
                o = p.setdefault("options", [])
                if isinstance(o, list):
                    o[:] = [x for x in o if x[0] != 'uid']
                    o.append(["uid", draw(st.sampled_from(
                        ["nobody", 0, "daemon"]))])
                    kinds.append('owner-mismatch')
            elif kind == 'ill-typed-envelope':
                kinds.append('ill-typed-envelope')
            elif kind == 'childpid-without-pid' and not kinds:
                # a cross-field requirement: childpid needs pid
                cmd = 'signal'
                p = {"name": draw(st.sampled_from(['a', 'a', 'A', 'S'])),
                     "signum": draw(st.sampled_from([15, "HUP", 9])),
                     "childpid": "@child"}
                if draw(st.booleans()):
                    p["recursive"] = True
                kinds.append('drop-required:pid-of-childpid')
            elif kind == 'invalid-json':
                raw = draw(st.sampled_from(
                    ['{"command": "stop", "properties": {}',
                     'stop', '{"command": stop}', '\x00\x01']))
                kinds.append('invalid-json')
        if isinstance(p.get("options"), tuple):
            p["options"] = list(p["options"])
        elif isinstance(p.get("options"), list):
            # option order matters (options are applied one by one) and a
            # JSON object in a replay file does not keep it: stored as pairs,
            # turned into an object when the message is sent
            p["options"] = {"__pairs__": [list(x) for x in p["options"]]}
        value = {"id": "q", "command": cmd, "properties": p}
        if 'ill-typed-envelope' in kinds:
            if draw(st.integers(0, 3)) == 0:
                value["command"] = draw(st.sampled_from(
                    [5, None, [], {"a": 1}, True]))
            else:
                value["properties"] = draw(st.sampled_from(
                    [[], "", [1], "abc", 5, 0, False, None, [[]], 0.0]))
        return {"command": cmd, "kinds": kinds, "value": value, "raw": raw}

    return st.fixed_dictionaries({
        "messages": st.lists(message(), min_size=1, max_size=4),
        "inflight": st.sampled_from([False, False, True]),
        "owner_mode": st.sampled_from([False, False, False, True]),
        "default_beh": st.sampled_from([{"react": "ignore"},
                                        {"react": "die", "delay": 0.0}])})


class _Stats(Stats):
    def record(self, case, nontrivial, classes=()):
        self.evaluations += 1
        for c in classes:
            self.count(c)
        if nontrivial:
            for m in case["messages"]:
                key = {"c": m["command"], "k": m["kinds"],
                       "f": case["inflight"], "o": case["owner_mode"]}
                hsh = case_hash(key)
                if hsh not in self.nontrivial:
                    self.nontrivial.add(hsh)
                    if len(self.samples) < self.max_samples:
                        self.samples.append(case)


def plan(tier, seed):
    n = 1500 if tier == 'quick' else 12000
    return [{"seed": seed * 100 + i, "n": n} for i in range(16)]


def run_shard(spec):
    stats = _Stats()
    found = hyp_search(_strategy(), execute, stats, spec["seed"], spec["n"],
                       known=spec["known"], max_rounds=8)
    res = stats.as_dict()
    res["violations"] = found
    return res


def check_floors(counters, evaluations, tier):
    msgs = []
    for key, frac in (('refused', 0.35),
                      ('refused-after-reaching-validate', 0.25),
                      ('refused-conflict', 0.04)):
        if counters.get(key, 0) < frac * evaluations:
            msgs.append("%s in only %d of %d cases" % (
                key, counters.get(key, 0), evaluations))
    return msgs
