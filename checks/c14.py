"""C14 - hooks gate exactly the transitions they are documented to gate.

Exhaustive enumeration over the stated products (start-phase hooks x
outcomes x ignore flags x worker kind x request; stop-phase; signal hooks)
plus Hypothesis-sampled combinations of all eight hooks.  The reference
table is derived from docs/source/for-devs/writing-hooks.rst and the
'hooks' paragraph of configuration.rst.
"""
import itertools

from vfw.history import History
from vfw.runner import Stats, Violation, hyp_search

PROPERTY = 'C14'
LEVEL = 'fault_enumeration'
RULE = ("enumeration: (a) every assignment of {absent, true, false, raise} "
        "x ignore flag to before_start, before_spawn, after_spawn, "
        "after_start (4^4 x 2^4, a superset of the stated 3^4 x 2^4) x "
        "worker in {obedient, stubborn} x numprocesses in {1, 2} x request "
        "in {start, restart, daemon start}, plus each start-phase hook answering "
        "None / 0 instead of False, and before_spawn / after_spawn accepting the "
        "first worker and refusing the second (these three families also "
        "with max_retry = -1); (b) before_stop/after_stop x "
        "outcomes x ignore x {stop, restart, rm} x worker kind; (c) "
        "before_signal/after_signal x outcomes (None and 0 included in b, c) x ignore x signal in {TERM, "
        "HUP, USR1, KILL} x {signal, kill, stop} x worker kind.  sampled: "
        "all eight hooks at once with random outcomes and a random request. "
        "Non-trivial = at least one hook returns false or raises; distinct "
        "by hash of the case.")
ASSUMPTIONS = [
    "hooks are Python callables that count their own invocations (the "
    "documented callable form of the hooks option)",
    "reference table: an exception counts as false unless the ignore flag is "
    "set (start-phase hooks) / is ignored (stop and signal hooks, which the "
    "documentation says never block)",
    "verdicts are relative to the simulated kernel",
]
START_HOOKS = ('before_start', 'before_spawn', 'after_spawn', 'after_start')
OUTCOMES = ('absent', 'true', 'false', 'raise')
# "If you don't return True, circus will kill the process": any falsy answer
# is a false one (None is what a hook without a return statement gives)
FALSY = ('false', 'none', 'zero')
OUTCOMES_WIDE = OUTCOMES + ('none', 'zero', 'raise-bare')
SIGS = {"TERM": 15, "HUP": 1, "USR1": 10, "KILL": 9}
GT = 0.3


def eff(hooks, name, default_ignored=False, nth=1):
    spec = hooks.get(name)
    if spec is None:
        return True
    out, ign = spec
    if out == 'true':
        return True
    if out == 'second-false':
        return nth <= 1
    if out in FALSY:
        return False
    return bool(ign) or default_ignored


def start_model(np_, hooks):
    """-> (aborted, expected invocation counts of the start-phase hooks)."""
    calls = dict((hname, 0) for hname in START_HOOKS)
    calls['before_start'] = 1
    if not eff(hooks, 'before_start'):
        return True, calls, 'before_start'
    for _ in range(np_):
        calls['before_spawn'] += 1
        if not eff(hooks, 'before_spawn', nth=calls['before_spawn']):
            return True, calls, 'before_spawn'
        calls['after_spawn'] += 1
        if not eff(hooks, 'after_spawn', nth=calls['after_spawn']):
            return True, calls, 'after_spawn'
    calls['after_start'] = 1
    if not eff(hooks, 'after_start'):
        return True, calls, 'after_start'
    return False, calls, None


def build(case):
    hooks = dict((kk, vv) for kk, vv in case["hooks"].items()
                 if vv[0] != 'absent')
    fam = case["family"]
    req = case["request"]
    wc = {"name": "w", "numprocesses": case["np"], "graceful_timeout": GT}
    if hooks:
        wc["hooks"] = hooks
    if case.get("max_retry") is not None:
        wc["max_retry"] = case["max_retry"]
    if fam == 'start' and req == 'start':
        wc["autostart"] = False
    beh = {"react": "ignore"} if case["worker"] == 'stubborn' else \
        {"react": "die", "delay": 0.0}
    return {"watchers": [wc, {"name": "other", "numprocesses": 1,
                              "graceful_timeout": GT}],
            "default_beh": beh, "tape": [], "ops": []}


def execute(case):
    hc = build(case)
    h = History(hc)
    w = h.world
    k = w.kernel
    viols = []
    classes = set()
    hooks = dict((kk, vv) for kk, vv in case["hooks"].items()
                 if vv[0] != 'absent')
    fam = case["family"]
    reqname = case["request"]
    np_ = case["np"]
    tag = '%s:%s' % (fam, reqname)
    try:
        h.start()
        mark_hooks = len(h.hook_log)
        mark_sig = len(k.signal_log)
        # the workers the daemon itself reports (a leaked, unreported
        # worker is the business of the aborted-start clause and of C04)
        old_pids = sorted(h.pids('w') or [])
        req = None
        if reqname == 'start':
            req = w.request('start', {"name": "w", "match": "simple",
                                      "waiting": True})
        elif reqname == 'restart':
            req = w.request('restart', {"name": "w", "match": "simple",
                                        "waiting": True})
        elif reqname == 'stop':
            req = w.request('stop', {"name": "w", "match": "simple",
                                     "waiting": True})
        elif reqname == 'rm':
            req = w.request('rm', {"name": "w", "waiting": True})
        elif reqname == 'signal':
            req = w.request('signal', {"name": "w",
                                       "signum": case["signum"]})
        elif reqname == 'kill':
            req = w.request('kill', {"name": "w", "signum": case["signum"],
                                     "waiting": True})
        ok = w.drain(120.0)
        if w.blocked:
            viols.append(Violation('C14:blocked:%s' % w.blocked_where,
                                   'event loop blocked'))
            return viols, True, []
        if not ok:
            viols.append(Violation('C14:no-quiescence:' + tag,
                                   'daemon not quiescent'))
            return viols, True, []
        if req is not None and not req.answered:
            viols.append(Violation('C14:unanswered:' + tag,
                                   'request never answered'))
        k.apply_due()
        st = h.status('w')
        live = w.eff_live('w')

        # ---- generic clause: one event per hook call ---------------------
        per_hook_calls = {}
        for e in h.hook_log:
            if e["watcher"] != 'w':
                continue
            c = per_hook_calls.setdefault(e["hook"], [0, 0])
            c[0 if e["outcome"] not in ('raise', 'raise-bare') else 1] += 1
        per_hook_ev = {}
        for (t, wname, ev, body) in w.parsed_events('w'):
            if ev in ('hook_success', 'hook_failure'):
                c = per_hook_ev.setdefault(body.get("name"), [0, 0])
                c[0 if ev == 'hook_success' else 1] += 1
        for hname in set(per_hook_calls) | set(per_hook_ev):
            if per_hook_calls.get(hname, [0, 0]) != \
                    per_hook_ev.get(hname, [0, 0]):
                viols.append(Violation(
                    'C14:hook-events-mismatch:%s' % hname,
                    'hook %s was called %r times (returned, raised) but '
                    'events report %r (success, failure)' % (
                        hname, per_hook_calls.get(hname, [0, 0]),
                        per_hook_ev.get(hname, [0, 0]))))

        # ---- start phase ---------------------------------------------------
        if fam in ('start', 'mixed') and reqname in ('start', 'restart',
                                                     'daemon-start'):
            aborted, calls, culprit = start_model(np_, hooks)
            if aborted:
                classes.add('start-aborted-by-' + culprit)
                if st != 'stopped':
                    viols.append(Violation(
                        'C14:aborted-start-not-stopped:%s:%s' % (culprit,
                                                                 reqname),
                        '%s effectively false, yet status is %r' % (
                            culprit, st)))
                if live:
                    viols.append(Violation(
                        'C14:aborted-start-leaves-worker:%s:%s' % (
                            culprit, case["worker"]),
                        '%s effectively false: the watcher is %r but '
                        'workers %r are alive' % (culprit, st, live)))
            else:
                if st != 'active' or len(live) != np_:
                    viols.append(Violation(
                        'C14:start-not-completed:%s' % reqname,
                        'no start-phase hook is effectively false, yet '
                        'status=%r live=%r (numprocesses %d)' % (
                            st, live, np_)))
            # invocation counts of the start-phase hooks for this request
            if fam == 'start' and reqname != 'restart':
                got = dict((hn, 0) for hn in START_HOOKS)
                lo = 0 if reqname == 'daemon-start' else mark_hooks
                for e in h.hook_log[lo:]:
                    if e["watcher"] == 'w' and e["hook"] in got:
                        got[e["hook"]] += 1
                want = dict((hn, (calls[hn] if hn in hooks else 0))
                            for hn in START_HOOKS)
                if got != want:
                    viols.append(Violation(
                        'C14:start-hook-invocations',
                        'start-phase hooks invoked %r, the documented '
                        'sequence implies %r' % (got, want)))

        # ---- stop phase ----------------------------------------------------
        if fam in ('stop', 'mixed') and reqname in ('stop', 'rm',
                                                    'restart') and old_pids:
            still = [p for p in old_pids if k.state(p) == 'running' and
                     p in w.eff_live()]
            if still:
                viols.append(Violation(
                    'C14:stop-prevented:%s' % reqname,
                    '%s completed but old workers %r still run (hooks %r)'
                    % (reqname, still, hooks)))
            if reqname == 'stop' and st != 'stopped':
                viols.append(Violation(
                    'C14:stop-prevented:status',
                    'stop completed, status %r' % st))
            if fam == 'stop':
                for hn in ('before_stop', 'after_stop'):
                    n = len([e for e in h.hook_log[mark_hooks:]
                             if e["watcher"] == 'w' and e["hook"] == hn])
                    if hn in hooks and n != 1:
                        viols.append(Violation(
                            'C14:stop-hook-invocations:%s' % hn,
                            '%s invoked %d times during one %s' % (
                                hn, n, reqname)))

        # ---- signal hooks --------------------------------------------------
        if fam in ('signal', 'mixed') and reqname in ('signal', 'kill',
                                                      'stop') and old_pids:
            veto = not eff(hooks, 'before_signal', default_ignored=True)
            if reqname == 'stop':
                s = 15
            else:
                s = SIGS.get(str(case["signum"]).upper(), case["signum"])
            sent = [e for e in k.signal_log[mark_sig:]
                    if e["pid"] in old_pids]
            got_s = sorted(e["pid"] for e in sent if e["sig"] == s)
            if veto and s != 9:
                classes.add('vetoed')
                if got_s:
                    viols.append(Violation(
                        'C14:vetoed-signal-sent:%s' % reqname,
                        'before_signal is false, yet signal %d was sent to '
                        '%r' % (s, got_s)))
                if reqname in ('kill', 'stop'):
                    nok = [p for p in old_pids
                           if not [e for e in sent if e["pid"] == p and
                                   e["sig"] == 9]]
                    if nok:
                        viols.append(Violation(
                            'C14:sigkill-not-sent-after-veto:%s' % reqname,
                            'the stop signal was vetoed; SIGKILL must still '
                            'be sent, missing for %r' % nok))
            else:
                if got_s != sorted(old_pids) and reqname == 'signal':
                    viols.append(Violation(
                        'C14:signal-not-sent',
                        'signal %d should have reached %r, reached %r' % (
                            s, sorted(old_pids), got_s)))
    finally:
        h.close()
    nontrivial = any(v[0] in FALSY + ('raise', 'raise-bare', 'second-false')
                     for v in hooks.values())
    seen = set()
    out = []
    for v in viols:
        if v["signature"] not in seen:
            seen.add(v["signature"])
            out.append(v)
    return out, nontrivial, sorted(classes)


def replay(case):
    return execute(case)[0]


# ---------------------------------------------------------------------------

def start_cases():
    for outs in itertools.product(OUTCOMES, repeat=4):
        raising = [i for i, o in enumerate(outs) if o == 'raise']
        # the ignore flag is only observable on hooks that raise; for the
        # others both values are still enumerated once each below
        for flags in itertools.product((False, True), repeat=4):
            if any(f and i not in raising and outs[i] == 'absent'
                   for i, f in enumerate(flags)):
                continue
            hooks = dict((hn, [o, f]) for hn, o, f in
                         zip(START_HOOKS, outs, flags))
            for worker in ('obedient', 'stubborn'):
                for np_ in (1, 2):
                    for reqname in ('start', 'restart', 'daemon-start'):
                        yield {"family": "start", "hooks": hooks,
                               "worker": worker, "np": np_,
                               "request": reqname}


def start_cases_falsy():
    """One start-phase hook answering None / 0 (the others absent or true)."""
    for i, hn in enumerate(START_HOOKS):
        for out, flag in (('none', False), ('zero', False),
                          ('raise-bare', False), ('raise-bare', True)):
            for others in ('absent', 'true'):
                hooks = dict((h2, [others, False]) for h2 in START_HOOKS
                             if others != 'absent')
                hooks[hn] = [out, flag]
                for worker in ('obedient', 'stubborn'):
                    for np_ in (0, 1, 2):
                        for reqname in ('start', 'restart', 'daemon-start'):
                            yield {"family": "start", "hooks": hooks,
                                   "worker": worker, "np": np_,
                                   "request": reqname}


def start_cases_no_process():
    """numprocesses = 0: before_start and after_start still gate the start."""
    for hn in ('before_start', 'after_start'):
        for out in ('true', 'false', 'raise', 'none'):
            for flag in (False, True):
                hooks = {hn: [out, flag]}
                for reqname in ('start', 'restart', 'daemon-start'):
                    yield {"family": "start", "hooks": hooks,
                           "worker": 'obedient', "np": 0,
                           "request": reqname}


def start_cases_late_veto():
    """before_spawn / after_spawn accept the first worker and refuse the
    second: the start is aborted with one worker already running."""
    for hn in ('before_spawn', 'after_spawn'):
        for others in ('absent', 'true'):
            hooks = dict((h2, [others, False]) for h2 in START_HOOKS
                         if others != 'absent')
            hooks[hn] = ['second-false', False]
            for worker in ('obedient', 'stubborn'):
                for np_ in (2, 3):
                    for reqname in ('start', 'daemon-start'):
                        yield {"family": "start", "hooks": hooks,
                               "worker": worker, "np": np_,
                               "request": reqname}


def stop_cases():
    for o1, o2 in itertools.product(OUTCOMES_WIDE, repeat=2):
        for f1, f2 in itertools.product((False, True), repeat=2):
            if (o1 == 'absent' and f1) or (o2 == 'absent' and f2):
                continue
            for worker in ('obedient', 'stubborn'):
                for reqname in ('stop', 'restart', 'rm'):
                    for np_ in (1, 2):
                        yield {"family": "stop",
                               "hooks": {"before_stop": [o1, f1],
                                         "after_stop": [o2, f2]},
                               "worker": worker, "np": np_,
                               "request": reqname}


def signal_cases():
    for o1, o2 in itertools.product(OUTCOMES_WIDE, repeat=2):
        for f1, f2 in itertools.product((False, True), repeat=2):
            if (o1 == 'absent' and f1) or (o2 == 'absent' and f2):
                continue
            for worker in ('obedient', 'stubborn'):
                for sname in sorted(SIGS):
                    for reqname in ('signal', 'kill', 'stop'):
                        if reqname == 'stop' and sname != 'TERM':
                            continue
                        yield {"family": "signal",
                               "hooks": {"before_signal": [o1, f1],
                                         "after_signal": [o2, f2]},
                               "worker": worker, "np": 2,
                               "request": reqname, "signum": sname}


def start_cases_retry_forever():
    """max_retry = -1 ("retry indefinitely") changes what a start without
    any spawned process means - not what a refusing hook means."""
    for gen in (start_cases_falsy, start_cases_late_veto,
                start_cases_no_process):
        for c in gen():
            yield dict(c, max_retry=-1)


def _all_cases(tier):
    return list(start_cases()) + list(start_cases_falsy()) + \
        list(start_cases_late_veto()) + list(start_cases_no_process()) + \
        list(start_cases_retry_forever()) + \
        list(stop_cases()) + list(signal_cases())


def _strategy():
    from hypothesis import strategies as st
    from vfw.history import HOOK_NAMES
    spec = st.tuples(st.sampled_from(OUTCOMES + OUTCOMES_WIDE),
                     st.booleans()).map(list)
    return st.fixed_dictionaries({
        "family": st.just("mixed"),
        "hooks": st.fixed_dictionaries(dict((hn, spec)
                                            for hn in HOOK_NAMES)),
        "worker": st.sampled_from(['obedient', 'stubborn']),
        "np": st.integers(0, 2),
        "request": st.sampled_from(['start', 'restart', 'daemon-start',
                                    'stop', 'rm', 'signal', 'kill']),
        "signum": st.sampled_from(sorted(SIGS))},
        optional={"max_retry": st.sampled_from([-1, 1, 5])})


def plan(tier, seed):
    specs = [{"kind": "enum", "shard": i, "of": 14} for i in range(14)]
    n = 800 if tier == 'quick' else 20000
    specs += [{"kind": "random", "seed": seed * 100 + i, "n": n}
              for i in range(2)]
    return specs


def run_shard(spec):
    stats = Stats()
    if spec["kind"] == 'enum':
        found = {}
        cases = _all_cases(spec["tier"])
        for i, case in enumerate(cases):
            if i % spec["of"] != spec["shard"]:
                continue
            v, nt, cl = execute(case)
            stats.record(case, nt, cl)
            stats.count('family-' + case["family"])
            for x in v:
                if x["signature"] in spec["known"]:
                    stats.known_hits[x["signature"]] = \
                        stats.known_hits.get(x["signature"], 0) + 1
                elif x["signature"] not in found:
                    found[x["signature"]] = {
                        "signature": x["signature"],
                        "message": x["message"], "case": case}
        res = stats.as_dict()
        res["violations"] = list(found.values())
        res["exhaustive"] = True
        res["coverage_extra"] = {"enumerated_cases_total": len(cases)}
        return res
    found = hyp_search(_strategy(), execute, stats, spec["seed"], spec["n"],
                       known=spec["known"], max_rounds=6)
    res = stats.as_dict()
    res["violations"] = found
    return res
