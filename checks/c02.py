"""C02 - stop leaves no survivor and no zombie; stopped stays stopped.

Two sub-runs:
  * fault enumeration: for a grid of (numprocesses x worker behaviour x
    request) the stop sequence is executed once to count its kernel-call
    boundaries, then once per (boundary, victim, kind of death);
  * Hypothesis histories mixing stop/restart/rm/quit with deaths, checks and
    non-start requests.
"""
import itertools

from vfw.history import History, behaviours, pacing_ops, death_ops
from vfw.runner import Stats, Violation, hyp_search

PROPERTY = 'C02'
LEVEL = 'fault_enumeration'
RULE = ("enumeration: scenario = (numprocesses 1-3, worker behaviour in "
        "{obeys, ignores, exits after a delay below / above "
        "graceful_timeout, slow SIGKILL}, request in {stop, restart, rm, "
        "quit}, optional pending periodic check); every kernel-call boundary "
        "k of the fault-free run x every victim x {exit 0, exit 3, killed "
        "by SIGKILL} is one case.  histories: <= 30 ops from {stop, restart, "
        "rm, quit, start, incr, decr, set, reload, deaths, faults, checks, "
        "time}, stop-phase hooks (before/after_signal, _stop, _reap) with any "
        "outcome on a quarter of the watchers; on-demand family: one on-demand watcher on a real managed "
        "socket (+ optionally a plain one), client connections as socket "
        "events.  Non-trivial = the stop overlapped a stubborn worker or an "
        "injected death, or a non-start request / check followed a completed "
        "stop; distinct by hash of the case.")
ASSUMPTIONS = [
    "verdicts are relative to the simulated kernel (vfw/kernel.py), itself "
    "compared with real processes by vfw/conformance.py",
    "completion of a stop is observed through its waiting reply (or "
    "quiescence for non-waiting requests)",
    "on-demand family: the managed socket is a real CircusSocket; a 'conn' "
    "op is the socket event; the harness accepts the pending connections on "
    "the workers' behalf when a worker of the on-demand watcher is spawned",
]
EPS = 1e-6
STOPPERS = ('stop', 'rm', 'quit', 'restart')
STARTERS = ('start', 'restart', 'reload')


def _pids_of(k, name, before=None):
    return [r["pid"] for r in k.spawn_log
            if r["owner"] == name and r["pid"] is not None and
            (before is None or r["t"] < before - EPS)]


def execute(case):
    if "token" in case:
        from vfw import live
        return live.execute_live(case, ('C02:live',))
    h = History(case)
    w = h.world
    k = w.kernel
    viols = []
    classes = set()
    names = [wc["name"] for wc in case["watchers"]]
    ondemand = set(wc["name"] for wc in case["watchers"]
                   if wc.get("on_demand"))
    removed = set()
    stopped_since = {}        # name -> (time, len(spawn_log)) after a stop
    tracked = {}              # req.idx -> (cmd, props)
    sent_deaths = {}          # req.idx -> len(death_log) when it was sent
    sent_nsig = {}            # req.idx -> len(signal_log) when it was sent
    pre_nsig = [0]
    pre_conn = [(0, 0)]
    snapshots = {}            # req.idx -> kernel facts at completion
    done = set()
    nontrivial = [False]

    sent_conn = {}            # req.idx -> (len(conn_log), pending) at send

    def later_starter(req, name=None):
        later = [r for r in w.requests
                 if r.idx > req.idx and (r.command in STARTERS or
                                         r.command in ('add',))]
        cmd_, props_ = tracked.get(req.idx, (None, {}))
        tg = [name] if name is not None else (
            [props_["name"]] if props_.get("name") in names else names)
        if req.idx in sent_conn and any(t_ in ondemand for t_ in tg):
            # a socket event that was waiting when the request was sent, or
            # arrived later, may start the on-demand watchers again
            n0, pend0 = sent_conn[req.idx]
            if pend0 or len(h.conn_log) > n0:
                later = later + ['socket-event']
        return later

    def snapshot(req):
        """Kernel facts at the instant the stop-type request completed."""
        cmd, props = tracked[req.idx]
        k.apply_due()
        targets = [props["name"]] if props.get("name") in names \
            else list(names)
        snap = {"t": w.loop.time(), "targets": {}, "nspawn": len(k.spawn_log),
                "pending_conns": h.pending_conns,
                "overtaken": bool(later_starter(req)) and cmd != 'quit'}
        ndeaths = sent_deaths[req.idx]
        snap["early_dead"] = set(d["pid"] for d in k.death_log[:ndeaths])
        snap["early_sigkilled"] = set(
            e["pid"] for e in k.signal_log[:sent_nsig[req.idx]]
            if e["sig"] == 9 and e["delivered"])
        for name in targets:
            before = req.t if cmd == 'restart' else None
            pids = _pids_of(k, name, before)
            sigkilled = set(e["pid"] for e in k.signal_log
                            if e["sig"] == 9 and e["delivered"])
            # a running process with a delivered SIGKILL is dying (kill
            # latency), not a survivor
            snap["targets"][name] = dict(
                (p, ('dying' if k.state(p) == 'running' and p in sigkilled
                     else k.state(p), k.procs[p].died_at)) for p in pids)
        snap["fired"] = [f for f in k.faults_fired if f["t"] >= req.t - EPS]
        snap["ext"] = [d for d in k.death_log if d["cause"] == 'external'
                       and d["t"] >= req.t - EPS]
        snapshots[req.idx] = snap

    def on_reply(req):
        if req.idx in tracked and req.idx not in snapshots:
            cmd, props = tracked[req.idx]
            if props.get("waiting"):
                snapshot(req)

    w.on_reply.append(on_reply)

    def verify(req):
        cmd, props = tracked[req.idx]
        rep = req.reply()
        done.add(req.idx)
        if rep is None or rep.get("status") != "ok":
            classes.add('refused-' + cmd)
            return
        snap = snapshots[req.idx]
        if snap["overtaken"]:
            # a start-type request was dispatched before this one was seen
            # to complete: the watcher may legitimately be running again
            classes.add('overtaken-by-start')
            return
        ctx = []
        if snap["fired"]:
            ctx.append('death-at-boundary-before-%s'
                       % snap["fired"][0]["before"])
        if snap["ext"]:
            ctx.append('external-death-during')
        if cmd == 'quit' and any(
                r.idx > req.idx and r.command in STARTERS + ('incr', 'set')
                and (r.reply() or {"status": "ok"}).get("status") == "ok"
                for r in w.requests):
            ctx = ['request-accepted-after-quit-before-exit']
        ctx = '+'.join(ctx) or 'plain'
        for name, table in snap["targets"].items():
            if name in removed:
                continue
            bad_live = sorted(p for p, (st, _) in table.items()
                              if st == 'running')
            bad_z = sorted(p for p, (st, _) in table.items()
                           if st == 'zombie')
            stub = any(k.procs[p].beh.get("react") == 'ignore'
                       for p in table)
            if bad_live:
                viols.append(Violation(
                    'C02:survivor:%s:%s' % (cmd, ctx),
                    '%s of %s completed at t=%.3f but workers %r are still '
                    'running' % (cmd, name, snap["t"], bad_live)))
            if bad_z and cmd != 'quit':
                # (after quit the daemon process is gone: its zombies are
                # reaped by init, nothing to observe)
                f06 = [p for p in bad_z if p in snap["early_sigkilled"]]
                if f06:
                    viols.append(Violation(
                        'C02:zombie:%s:sigkilled-by-earlier-operation' % cmd,
                        '%s of %s completed at t=%.3f but workers %r, which '
                        'an earlier operation had SIGKILLed and dropped '
                        'before this request was sent, are unreaped zombies'
                        % (cmd, name, snap["t"], f06)))
                bad_z = [p for p in bad_z if p not in f06]
                pre = [p for p in bad_z if p in snap["early_dead"]]
                dur = [p for p in bad_z if p not in pre]
                for p_ in pre:
                    cause = k.procs[p_].cause
                    viols.append(Violation(
                        'C02:zombie:%s:died-before-the-request:%s' % (
                            cmd, cause),
                        '%s of %s completed at t=%.3f but worker %r, which '
                        'died (%s) before the request was sent, is an '
                        'unreaped zombie' % (cmd, name, snap["t"], p_,
                                             cause)))
                if dur:
                    viols.append(Violation(
                        'C02:zombie:%s:died-during:%s' % (cmd, ctx),
                        '%s of %s completed at t=%.3f but workers %r, which '
                        'died during the operation, are unreaped zombies'
                        % (cmd, name, snap["t"], dur)))
            if stub or ctx != 'plain':
                nontrivial[0] = True
                classes.add('stop-overlapped-stubborn-or-death')
            if cmd in ('stop', 'rm', 'quit') and \
                    not later_starter(req, name) \
                    and not (name in ondemand and (
                        snap["pending_conns"] or
                        any(t_ >= snap["t"] - EPS for t_, _ in h.conn_log))):
                # (an on-demand watcher with a connection still waiting has
                # a socket event pending: it may start again)
                stopped_since[name] = (snap["t"], snap["nspawn"])
            if cmd == 'rm':
                removed.add(name)
        # status through the protocol, only while nothing else was sent
        last = w.requests[-1] if w.requests else None
        if cmd == 'stop' and not w.exited and not w.dead and \
                (last is None or last.idx == req.idx or
                 all(r.command in ('status', 'numprocesses')
                     for r in w.requests[req.idx + 1:])):
            for name in snap["targets"]:
                if name in removed or name in rm_sent:
                    continue
                st = h.status(name)
                n = h.numprocesses(name)
                if st != 'stopped' or n != 0:
                    viols.append(Violation(
                        'C02:status-after-stop:%s' % ctx,
                        'after stop of %s: status %r, numprocesses %r' % (
                            name, st, n)))
        classes.add('completed-' + cmd)

    def account():
        for idx in sorted(tracked):
            if idx in done:
                continue
            req = w.requests[idx]
            cmd, props = tracked[idx]
            if req.reply() is None:
                continue
            if idx not in snapshots:
                # not waiting: complete once the daemon is quiescent
                if not (w.quiescent() or w.exited):
                    continue
                if later_starter(req) and cmd != 'quit':
                    done.add(idx)
                    continue
                snapshot(req)
            verify(req)

    pre_deaths = [0]
    rm_sent = set()

    def before_op(h_, i, op):
        k.apply_due()
        pre_deaths[0] = len(k.death_log)
        pre_nsig[0] = len(k.signal_log)
        pre_conn[0] = (len(h.conn_log), h.pending_conns)

    def on_op(h_, i, op):
        if op[0] == 'req':
            cmd, props = op[1], op[2]
            req = h_.reqs[i]
            if cmd in STARTERS:
                targets = [props["name"]] if props.get("name") in names \
                    else names
                for n_ in targets:
                    stopped_since.pop(n_, None)
            if cmd == 'rm':
                rm_sent.add(props.get("name"))
            if cmd in STOPPERS:
                tracked[req.idx] = (cmd, props)
                sent_deaths[req.idx] = pre_deaths[0]
                sent_nsig[req.idx] = pre_nsig[0]
                sent_conn[req.idx] = pre_conn[0]
                if req.reply() is not None and props.get("waiting") and \
                        req.idx not in snapshots:
                    snapshot(req)
            elif stopped_since:
                classes.add('request-after-stop')
                nontrivial[0] = True
        elif op[0] == 'check' and stopped_since:
            classes.add('check-after-stop')
            nontrivial[0] = True
        elif op[0] == 'conn' and h.socks:
            # the socket event: on-demand watchers may start from now on
            for n_ in ondemand:
                stopped_since.pop(n_, None)
            classes.add('socket-event')
        account()
        # stopped stays stopped
        for name, (t0, n0) in list(stopped_since.items()):
            new = [r for r in k.spawn_log[n0:] if r["owner"] == name]
            if new:
                viols.append(Violation(
                    'C02:spawn-while-stopped:%s' % (
                        op[1] if op[0] == 'req' else op[0]),
                    'watcher %s was stopped at t=%.3f and no start-type '
                    'request was sent, yet %d worker(s) were spawned (pids '
                    '%r) after op %r' % (name, t0, len(new),
                                         [r["pid"] for r in new], op)))
                stopped_since.pop(name)

    try:
        h.start()
        for n_ in ondemand:
            # never started: no worker until the first connection
            stopped_since[n_] = (w.loop.time(), len(k.spawn_log))
        h.run(on_op, before_op)
        if ondemand and [r for r in k.spawn_log if r["owner"] in ondemand]:
            classes.add('on-demand-started')
        ok = h.settle(checks=0)
        account()
        if ok and not w.exited:
            w.full_check()
            account()
            for name, (t0, n0) in list(stopped_since.items()):
                new = [r for r in k.spawn_log[n0:] if r["owner"] == name]
                if new:
                    viols.append(Violation(
                        'C02:spawn-while-stopped:settle-check',
                        'watcher %s stopped at t=%.3f, spawned %r during '
                        'the final check' % (name, t0,
                                             [r["pid"] for r in new])))
        if w.blocked:
            viols.append(Violation(
                'C02:blocked:%s' % w.blocked_where,
                'event loop blocked in %s' % w.blocked_where))
        elif not ok and not w.exited:
            viols.append(Violation('C02:no-quiescence',
                                   'daemon never became quiescent'))
        if k.faults_fired:
            classes.add('fault-fired')
        if any(r["beh"].get("react") == 'ignore' for r in k.spawn_log):
            classes.add('stubborn-worker')
        if w.exited:
            classes.add('daemon-exited')
    finally:
        h.close()
    return viols, nontrivial[0], sorted(classes)


def replay(case):
    return execute(case)[0]


# ---------------------------------------------------------------------------

BEHS = {
    "obey": {"react": "die", "delay": 0.0},
    "ignore": {"react": "ignore"},
    "ignore-slowkill": {"react": "ignore", "klat": 0.002},
    "delay<gt": {"react": "exit", "delay": 0.15, "code": 0},
    "delay>gt": {"react": "die", "delay": 0.45, "klat": 0.002},
}
GT = 0.3


def _scenario(np_, bname, cmd, precheck):
    props = {"waiting": True}
    if cmd != 'quit':
        props["name"] = "w0"
    if cmd == 'restart':
        props["match"] = "simple"
    ops = []
    if precheck:
        ops.append(["check"])
    ops.append(["req", cmd, props])
    ops.append(["drain"])
    ops.append(["check"])
    ops.append(["drain"])
    return {"watchers": [{"name": "w0", "numprocesses": np_,
                          "graceful_timeout": GT},
                         {"name": "w1", "numprocesses": 1,
                          "graceful_timeout": GT}],
            "default_beh": BEHS[bname], "tape": [], "ops": ops}


def _count_boundaries(case):
    h = History(case)
    try:
        h.start()
        n0 = h.world.kernel.ncalls
        h.run()
        return h.world.kernel.ncalls - n0
    finally:
        h.close()


def _enumerate(spec, stats):
    found = {}
    hows = [["exit", 0], ["exit", 3], ["signal", 9]]
    for np_, bname, cmd, pre in spec["scenarios"]:
        base = _scenario(np_, bname, cmd, pre)
        n = _count_boundaries(base)
        stats.count('scenario')
        stats.count('boundaries', n)
        for kk in range(1, n + 1):
            for victim in range(np_ + 1):
                for how in hows:
                    case = dict(base)
                    case["ops"] = [["fault", kk, victim, how]] + base["ops"]
                    v, nt, cl = execute(case)
                    stats.record(case, nt, cl)
                    for x in v:
                        if x["signature"] in spec["known"]:
                            stats.known_hits[x["signature"]] = \
                                stats.known_hits.get(x["signature"], 0) + 1
                            continue
                        cur = found.get(x["signature"])
                        if cur is None:
                            found[x["signature"]] = {
                                "signature": x["signature"],
                                "message": x["message"], "case": case}
    return list(found.values())


def _strategy():
    from hypothesis import strategies as st

    @st.composite
    def case(draw):
        nw = draw(st.sampled_from([1, 1, 2, 2]))
        capture_all = draw(st.integers(0, 3)) == 0
        watchers = []
        gts = []
        for i in range(nw):
            gt = draw(st.sampled_from([0.1, 0.3, 1.0, 0.1, 0.3, 0]))
            gts.append(gt)
            wc = {"name": "w%d" % i,
                  "numprocesses": draw(st.integers(0, 3)),
                  "graceful_timeout": gt,
                  "warmup_delay": draw(st.sampled_from([0, 0, 0.05]))}
            if draw(st.integers(0, 5)) == 0:
                wc["stop_children"] = True
            if draw(st.integers(0, 6)) == 0:
                wc["respawn"] = False
            if capture_all or draw(st.integers(0, 3)) == 0:
                # captured output: real pipes registered with the loop
                wc["stdout_stream"] = {"class": "QueueStream"}
                if draw(st.booleans()):
                    wc["stderr_stream"] = {"class": "QueueStream"}
            if draw(st.integers(0, 3)) == 0:
                # stop-phase hooks: whatever they answer, a stop completes
                hk = {}
                for hn in draw(st.lists(st.sampled_from(
                        ['before_signal', 'after_signal', 'before_stop',
                         'after_stop', 'before_reap', 'after_reap']),
                        min_size=1, max_size=2, unique=True)):
                    hk[hn] = [draw(st.sampled_from(
                        ['false', 'raise', 'none', 'true'])),
                        draw(st.booleans())]
                wc["hooks"] = hk
            watchers.append(wc)
        names = [wc["name"] for wc in watchers]
        tape = draw(st.lists(behaviours(gts=tuple(sorted(set(gts))),
                                        children=2), max_size=8))
        dflt = draw(st.sampled_from(
            [BEHS["obey"], BEHS["obey"], BEHS["ignore"],
             BEHS["ignore-slowkill"]]))
        name = st.sampled_from(names)

        def req(cmd, props):
            return st.tuples(st.just("req"), st.just(cmd), props).map(list)

        wt = st.sampled_from([True, True, True, False])
        stoppers = st.one_of(
            req('stop', st.fixed_dictionaries(
                {"name": name, "match": st.just("simple"), "waiting": wt})),
            req('stop', st.fixed_dictionaries({"waiting": wt})),
            req('stop', st.fixed_dictionaries(
                {"name": st.sampled_from(["w*", "W?"]), "waiting": wt})),
            req('stop', st.fixed_dictionaries(
                {"name": st.just("w[0-9]+"), "match": st.just("regex"),
                 "waiting": wt})),
            req('restart', st.fixed_dictionaries(
                {"name": name, "match": st.just("simple"), "waiting": wt})),
            req('rm', st.fixed_dictionaries({"name": name, "waiting": wt})),
            req('quit', st.fixed_dictionaries({"waiting": wt})))
        others = st.one_of(
            req('incr', st.fixed_dictionaries(
                {"name": name, "nb": st.integers(1, 2)})),
            req('decr', st.fixed_dictionaries(
                {"name": name, "nb": st.integers(1, 2)})),
            req('set', st.fixed_dictionaries(
                {"name": name, "options": st.sampled_from(
                    [{"numprocesses": 2}, {"numprocesses": 0},
                     {"graceful_timeout": 0.2}, {"warmup_delay": 0.1},
                     {"stop_signal": 2}, {"cmd": "other --wid $(circus.wid)"},
                     {"env": {"A": "b"}}, {"max_age": 0},
                     {"working_dir": "/tmp"}, {"args": ["x"]},
                     {"shell": False},
                     {"numprocesses": 1, "max_age_variance": 3}])})),
            req('start', st.fixed_dictionaries(
                {"name": name, "match": st.just("simple"), "waiting": wt})),
            req('reload', st.fixed_dictionaries({"name": name})),
            req('kill', st.fixed_dictionaries(
                {"name": name}, optional={
                    "graceful_timeout": st.sampled_from([0.1, 0.5, 2.0]),
                    "signum": st.sampled_from([15, 2, 10])})))
        ops = draw(st.lists(st.one_of(stoppers, stoppers, others,
                                      pacing_ops(), pacing_ops(),
                                      death_ops()),
                            min_size=1, max_size=30))
        return {"watchers": watchers, "tape": tape, "default_beh": dflt,
                "ops": ops}
    return case()


def _ondemand_strategy():
    from hypothesis import strategies as st
    base = _strategy()

    @st.composite
    def case(draw):
        c = draw(base)
        wc = c["watchers"][0]
        wc["on_demand"] = True
        wc["use_sockets"] = True
        wc["numprocesses"] = draw(st.integers(1, 3))
        wc["warmup_delay"] = draw(st.sampled_from([0, 0.05, 0.3, 0.3]))
        c["sockets"] = [draw(st.sampled_from(['unix', 'inet']))]
        for other in c["watchers"][1:]:
            # a plain watcher may use the managed sockets too
            if draw(st.booleans()):
                other["use_sockets"] = True
        if draw(st.booleans()):
            c["arbiter"] = {"warmup_delay": draw(st.sampled_from(
                [0.05, 0.3]))}
        # socket events, usually followed by the periodic check that
        # notices them and by a little progress of the on-demand start
        for _ in range(draw(st.integers(1, 3))):
            pos = draw(st.integers(0, len(c["ops"])))
            burst = [["conn", 0]]
            if draw(st.integers(0, 4)) > 0:
                burst.append(["check"])
                burst += draw(st.lists(st.sampled_from(
                    [["idle"], ["step", 1], ["step", 2], ["next"],
                     ["adv", 0.05]]), max_size=2))
            c["ops"][pos:pos] = burst
        return c
    return case()


def plan(tier, seed):
    nps = [1, 2, 3] if tier == 'thorough' else [1, 2]
    scen = [(np_, b, c, pre)
            for np_ in nps
            for b in sorted(BEHS)
            for c in STOPPERS
            for pre in ((False, True) if tier == 'thorough' else (False,))]
    shards = [[] for _ in range(8)]
    for i, s in enumerate(scen):
        shards[i % 8].append(s)
    specs = [{"kind": "enum", "scenarios": s} for s in shards if s]
    n = 1200 if tier == "quick" else 12000
    specs += [{"kind": "random", "seed": seed * 100 + i, "n": n}
              for i in range(8)]
    specs += [{"kind": "ondemand", "seed": seed * 100 + 40 + i, "n": n}
              for i in range(4)]
    specs += [{"kind": "live", "seed": seed * 100 + 60 + i,
               "n": 3 if tier == 'quick' else 40} for i in range(2)]
    return specs


def run_shard(spec):
    stats = Stats()
    if spec.get("kind") == 'live':
        from vfw import live
        found = hyp_search(live.strategy(always_restart=True), execute,
                           stats, spec["seed"], spec["n"],
                           known=spec["known"], max_rounds=2, shrink=False)
        res = stats.as_dict()
        res["violations"] = found
        res["inconclusive"] = stats.counters.get('live-inconclusive', 0)
        return res
    if spec["kind"] == 'enum':
        found = _enumerate(spec, stats)
        res = stats.as_dict()
        res["violations"] = found
        res["exhaustive"] = True
        return res
    strat = _ondemand_strategy() if spec["kind"] == 'ondemand' \
        else _strategy()
    found = hyp_search(strat, execute, stats, spec["seed"], spec["n"],
                       known=spec["known"])
    res = stats.as_dict()
    res["violations"] = found
    return res


def check_floors(counters, evaluations, tier):
    msgs = []
    if counters.get('stubborn-worker', 0) < 0.1 * evaluations:
        msgs.append("stubborn worker in only %d of %d cases" % (
            counters.get('stubborn-worker', 0), evaluations))
    if counters.get('fault-fired', 0) < 0.1 * evaluations:
        msgs.append("fault fired in only %d of %d cases" % (
            counters.get('fault-fired', 0), evaluations))
    return msgs
