"""C13 - each worker runs exactly the configured command line, environment
and directory; worker ids are positive, start at 1 and are unique.

(argv) constructive oracle: the expected argument vector is chosen first and
       then *encoded* as cmd / args with random quoting and variable
       references whose values are known; Process.format_args must decode it.
(hist) SimWorld histories: arguments of every process-creation call.
"""
import os
import re
import shlex

from vfw.history import History, lifecycle_cases
from vfw.runner import Stats, Violation, hyp_search

PROPERTY = 'C13'
LEVEL = 'exploration'
RULE = ("argv: expected argv of 1-6 tokens over an alphabet with spaces, "
        "tabs, quotes, backslashes, dollars, parentheses and non-ASCII "
        "letters; each token is a sequence of literal pieces and variable "
        "references ($(circus.X) / ((circus.X)), any letter case) to wid, "
        "env.NAME, sockets.NAME, working_dir and watcher options with known "
        "values, plus unknown references and literal dollars which must stay "
        "verbatim; encoded as a cmd string (three quoting styles per token) "
        "and args as list (kept as given, arbitrary values) or string "
        "(quoted); shell on/off.  hist: generated lifecycle histories; every "
        "captured Popen call is checked for cwd, env (copy_env on/off) and "
        "the wid in argv.  Non-trivial = a token containing a quote, space "
        "or variable reference / a history with a respawn; distinct by hash "
        "of the case.")
ASSUMPTIONS = [
    "substitution precedes shell-style splitting (as the statement says), so "
    "values spliced into string forms come from a split-safe alphabet and "
    "references stay textually intact",
    "the deprecated literal $WID and literal text matching a circus "
    "reference are kept out of literal pieces",
    "hist: the arguments of psutil.Popen are captured by the simulated "
    "kernel; what exec really receives is covered by the live tier",
]

SAFE = 'ABCabc019_./:=-'
REF_RE = re.compile(r'\$\(circus|\(\(circus|\$WID', re.I)


def quote_token(text, style):
    """Encode text so that POSIX shlex decodes it back (text may contain
    reference syntax, which must stay intact)."""
    if text == '':
        return "''"
    if style == 0:
        return shlex.quote(text)
    if style == 1:
        return '"' + text.replace('\\', '\\\\').replace('"', '\\"') + '"'
    out = []
    for ch in text:
        if ch in ' \t\'"\\' or ch == '\n':
            out.append('\\' + ch)
        else:
            out.append(ch)
    return ''.join(out)


def render_piece(piece, values, in_string):
    """-> (source text, expected text)."""
    kind = piece[0]
    if kind == 'lit':
        return piece[1], piece[1]
    if kind == 'ref':
        name, syntax, casing = piece[1], piece[2], piece[3]
        body = 'circus.' + name
        if casing == 1:
            body = body.upper()
        elif casing == 2:
            body = ''.join(c.upper() if i % 2 else c
                           for i, c in enumerate(body))
        src = '$(%s)' % body if syntax == 0 else '((%s))' % body
        return src, str(values[name.lower()])
    if kind == 'unknown':
        return piece[1], piece[1]
    raise ValueError(piece)


def execute_argv(case):
    from circus.process import Process
    env = dict(case["env"])
    values = {"wid": case["wid"], "working_dir": case["working_dir"],
              "shell": case["shell"]}
    for kk, vv in env.items():
        values["env." + kk.lower()] = vv
    for kk, vv in case["sockets"].items():
        values["sockets." + kk.lower()] = vv
    viols = []
    expected = []
    cmd_src = []
    interesting = False

    def unsafe_ref(tokens):
        for tok in tokens:
            for p_ in tok["pieces"]:
                if p_[0] != 'ref':
                    continue
                val = str(values[p_[1].lower()])
                # (an empty value is split-sensitive too: in a string form
                # the word it stood for may vanish)
                if val == '' or not all(ch in SAFE for ch in val):
                    return True
        return False

    def subst_then_split(tokens):
        """The statement's definition for string forms: substitute the
        references (we know which texts we emitted and their values), then
        split by shell quoting rules."""
        parts = []
        for tok in tokens:
            src = ''
            for p_ in tok["pieces"]:
                s_, e_ = render_piece(p_, values, True)
                if p_[0] == 'ref':
                    src += '\0REF%d\0' % len(subs)
                    subs.append(e_)
                else:
                    src += s_
            parts.append(quote_token(src, tok["style"]))
        text = ' '.join(parts)
        for i_, e_ in enumerate(subs):
            text = text.replace('\0REF%d\0' % i_, e_)
        return shlex.split(text)
    subs = []
    for tok in case["cmd_tokens"]:
        src = ''.join(render_piece(p, values, True)[0] for p in tok["pieces"])
        exp = ''.join(render_piece(p, values, True)[1] for p in tok["pieces"])
        cmd_src.append(quote_token(src, tok["style"]))
        expected.append(exp)
        if any(p[0] != 'lit' for p in tok["pieces"]) or \
                re.search(r'[\s\'"\\]', exp):
            interesting = True
    cmd = ' '.join(cmd_src)
    split_unsafe = False
    if unsafe_ref(case["cmd_tokens"]):
        split_unsafe = True
        try:
            expected = subst_then_split(case["cmd_tokens"])
        except ValueError:
            return [], False, ['argv', 'unbalanced-after-substitution']
    args = None
    if case["args_form"] == 'list':
        args = []
        for tok in case["args_tokens"]:
            src = ''.join(render_piece(p, values, False)[0]
                          for p in tok["pieces"])
            exp = ''.join(render_piece(p, values, False)[1]
                          for p in tok["pieces"])
            args.append(src)
            expected.append(exp)
            if any(p[0] != 'lit' for p in tok["pieces"]) or \
                    re.search(r'[\s\'"\\]', exp):
                interesting = True
    elif case["args_form"] == 'string':
        parts = []
        exp_args = []
        for tok in case["args_tokens"]:
            src = ''.join(render_piece(p, values, True)[0]
                          for p in tok["pieces"])
            exp = ''.join(render_piece(p, values, True)[1]
                          for p in tok["pieces"])
            parts.append(quote_token(src, tok["style"]))
            exp_args.append(exp)
        args = ' '.join(parts)
        if unsafe_ref(case["args_tokens"]):
            split_unsafe = True
            subs[:] = []
            try:
                exp_args = subst_then_split(case["args_tokens"])
            except ValueError:
                return [], False, ['argv', 'unbalanced-after-substitution']
        expected.extend(exp_args)
    p = Process('w', case["wid"], cmd, args=args,
                working_dir=case["working_dir"], shell=case["shell"],
                env=env, spawn=False)
    try:
        got = p.format_args(sockets_fds=dict(case["sockets"]))
    except Exception as e:
        viols.append(Violation(
            'C13:format_args-raised:%s' % type(e).__name__,
            'format_args raised %r for cmd=%r args=%r' % (e, cmd, args)))
        return viols, interesting, ['argv']
    if case["shell"]:
        try:
            dec = shlex.split(got[0]) if got else None
        except ValueError:
            dec = None
        if len(got) != 1 or dec != expected:
            viols.append(Violation(
                'C13:argv:shell',
                'shell=True: sh -c would receive %r which splits into %r; '
                'expected %r (cmd=%r args=%r)' % (got, dec, expected, cmd,
                                                  args)))
    elif got != expected:
        diff = [i for i, (a, b) in enumerate(zip(got, expected)) if a != b]
        where = 'args' if (diff and diff[0] >= len(case["cmd_tokens"])) \
            else 'cmd'
        viols.append(Violation(
            'C13:argv:%s:%s' % (where, case["args_form"]),
            'format_args gave %r, expected %r (cmd=%r args=%r env=%r)' % (
                got, expected, cmd, args, env)))
    classes = ['argv', 'args-' + str(case["args_form"])]
    if split_unsafe:
        classes.append('split-unsafe-value-in-string-form')
    if case["shell"]:
        classes.append('shell')
    if any(p[0] == 'ref' for tok in case["cmd_tokens"] + case["args_tokens"]
           for p in tok["pieces"]):
        classes.append('with-reference')
    if any(p[0] == 'unknown' for tok in case["cmd_tokens"] +
           case["args_tokens"] for p in tok["pieces"]):
        classes.append('with-unknown-reference')
    return viols, interesting, classes


def execute_hist(case):
    saved = {}
    for kk, vv in (case.get("daemon_env") or {}).items():
        saved[kk] = os.environ.get(kk)
        os.environ[kk] = vv
    h = None
    viols = []
    classes = set(['hist'])
    try:
        h = History(case)
        w = h.world
        k = w.kernel
        wcfg = dict((wc["name"], dict(wc)) for wc in case["watchers"])
        environ0 = dict(os.environ)
        checked = [0]

        def check_spawns():
            for r in k.spawn_log[checked[0]:]:
                wc = wcfg.get(r["owner"])
                if wc is None:
                    continue
                want_cwd = wc.get("working_dir")
                if want_cwd and r["cwd"] != want_cwd:
                    viols.append(Violation(
                        'C13:cwd', 'worker of %s created with cwd=%r, '
                        'configured %r' % (r["owner"], r["cwd"], want_cwd)))
                if wc.get("copy_env"):
                    want_env = dict(environ0)
                    want_env.update(wc.get("env") or {})
                else:
                    want_env = dict(wc.get("env") or {})
                if (r["env"] or {}) != want_env:
                    extra = sorted(set(r["env"] or {}) - set(want_env))
                    missing = sorted(set(want_env) - set(r["env"] or {}))
                    changed = sorted(x for x in want_env
                                     if x in (r["env"] or {}) and
                                     r["env"][x] != want_env[x])
                    viols.append(Violation(
                        'C13:env:%s' % ('copy_env' if wc.get("copy_env")
                                        else 'plain'),
                        'worker of %s created with a different environment: '
                        'extra %r missing %r changed %r' % (
                            r["owner"], extra[:5], missing[:5], changed[:5])))
                args, shell_pos = _worker_argv(r["args"], r.get("shell"))
                if r.get("pid") is not None:
                    # the whole vector: cmd + args after substitution
                    want_argv = ['worker', '--name', r["owner"]]
                    if wc.get("tagged"):
                        want_argv += ['--tag', (wc.get("env") or {}).get(
                            "VERIF_A")]
                    want_argv += ['--wid']
                    got_argv = list(args or [])
                    wid_ok = len(got_argv) == len(want_argv) + 1 and \
                        str(got_argv[-1]).isdigit()
                    if (not wid_ok or got_argv[:-1] != want_argv) and \
                            (not wc.get("tagged") or
                             got_argv[:3] != want_argv[:3] or
                             len(got_argv) != len(want_argv) + 1):
                        # (a stale tag value has its own clause below)
                        viols.append(Violation(
                            'C13:argv:hist:%s' % (
                                'shell' if r.get("shell") else 'exec'),
                            'worker of %s runs %r (created with args=%r '
                            'shell=%r), configured %r + wid' % (
                                r["owner"], got_argv, r["args"],
                                r.get("shell"), want_argv)))
                    if r.get("shell"):
                        classes.add('shell-watcher')
                        sa = wc.get("shell_args")
                        want_pos = shlex.split(sa) if isinstance(sa, str) \
                            else list(sa or [])
                        if shell_pos != want_pos:
                            viols.append(Violation(
                                'C13:argv:shell_args',
                                'worker of %s: the shell gets positional '
                                'parameters %r, shell_args is %r (args=%r)'
                                % (r["owner"], shell_pos, sa, r["args"])))
                if wc.get("tagged") and r.get("pid") is not None:
                    # the command line refers to a variable of the watcher's
                    # environment: substituted with the value configured now
                    tag = None
                    for i_, a_ in enumerate(args or []):
                        if a_ == '--tag' and i_ + 1 < len(args):
                            tag = args[i_ + 1]
                    want_tag = (wc.get("env") or {}).get("VERIF_A")
                    if tag != want_tag:
                        viols.append(Violation(
                            'C13:argv:stale-env-value',
                            'worker of %s runs with --tag %r while the '
                            'watcher\'s environment says VERIF_A=%r (argv %r)'
                            % (r["owner"], tag, want_tag, args)))
                if r.get("pid") is not None:
                    wid = _wid_of(args)
                    if wid is None or wid < 1:
                        viols.append(Violation(
                            'C13:wid-not-positive', 'argv %r carries wid %r'
                            % (args, wid)))
            checked[0] = len(k.spawn_log)

        def check_wids():
            for name in wcfg:
                seen = {}
                for pid in w.eff_live(name):
                    rec = k.procs[pid].rec
                    wid = _wid_of(rec["args"])
                    if wid in seen:
                        viols.append(Violation(
                            'C13:wid-not-unique',
                            'live workers %d and %d of %s both run with wid '
                            '%r' % (seen[wid], pid, name, wid)))
                    seen[wid] = pid

        def on_op(h_, i, op):
            if op[0] == 'req' and op[1] == 'set' and \
                    isinstance(op[2].get("options"), dict) and \
                    "env" in op[2]["options"]:
                rep = h_.reqs[i].reply()
                if rep is None or rep.get("status") == "ok":
                    wc_ = wcfg.get(op[2].get("name"))
                    if wc_ is not None:
                        wc_["env"] = dict(op[2]["options"]["env"])
                        classes.add('env-changed-at-run-time')
                elif len(op[2]["options"]) > 1:
                    # a refused multi-option set may have applied the
                    # options that came before the offending one (open
                    # finding R7, the business of C11): the configured
                    # environment is then what the daemon itself reports
                    wc_ = wcfg.get(op[2].get("name"))
                    cur = h_.option(op[2].get("name"), 'env')
                    if wc_ is not None and isinstance(cur, dict):
                        if cur != wc_.get("env"):
                            classes.add('refused-set-changed-env(R7)')
                            # (the refused request never got to reload the
                            # workers: the live ones are not judged)
                            wc_["r7"] = True
                        wc_["env"] = dict(cur)
            check_spawns()
            if not viols:
                check_wids()

        h.start()
        for name in wcfg:
            first = [r for r in k.spawn_log if r["owner"] == name and
                     r["pid"] is not None]
            if first and _wid_of(first[0]["args"]) != 1:
                viols.append(Violation(
                    'C13:first-wid', 'first worker of %s got wid %r' % (
                        name, _wid_of(first[0]["args"]))))
        check_spawns()
        check_wids()
        h.run(on_op)
        ok_ = h.settle(checks=1)
        check_spawns()
        if not viols:
            check_wids()
        if ok_ and not viols and not w.exited:
            # a run-time change of the environment is applied by reloading
            # the workers: once everything has settled no live worker still
            # runs with the old value (send_hup watchers only get a SIGHUP)
            for name, wc in wcfg.items():
                if not wc.get("tagged") or wc.get("send_hup") or \
                        wc.get("r7"):
                    continue
                if h.status(name) != 'active':
                    continue
                want_tag = (wc.get("env") or {}).get("VERIF_A")
                for pid in w.eff_live(name):
                    rec = k.procs[pid].rec
                    tag = None
                    argv_ = _worker_argv(rec["args"], rec.get("shell"))[0] \
                        or []
                    for i_, a_ in enumerate(argv_):
                        if a_ == '--tag' and i_ + 1 < len(argv_):
                            tag = argv_[i_ + 1]
                    if tag != want_tag or (rec["env"] or {}).get(
                            "VERIF_A") != want_tag:
                        viols.append(Violation(
                            'C13:live-worker-with-old-configuration',
                            'worker %d of %s still runs with --tag %r / '
                            'VERIF_A=%r after the watcher\'s environment was '
                            'set to VERIF_A=%r' % (
                                pid, name, tag,
                                (rec["env"] or {}).get("VERIF_A"),
                                want_tag)))
                        break
        respawn = len([r for r in k.spawn_log if r["pid"] is not None]) > \
            sum(int(wc.get("numprocesses", 1)) for wc in case["watchers"])
        if respawn:
            classes.add('respawn')
        nontrivial = respawn
    finally:
        if h is not None:
            h.close()
        for kk, vv in saved.items():
            if vv is None:
                os.environ.pop(kk, None)
            else:
                os.environ[kk] = vv
    seen = set()
    out = []
    for v in viols:
        if v["signature"] not in seen:
            seen.add(v["signature"])
            out.append(v)
    return out, nontrivial, sorted(classes)


def _worker_argv(args, shell):
    """-> (argument vector the worker program gets, $0 $1 ... of the shell).
    With shell=True subprocess runs `sh -c args[0] args[1:]`: the program is
    given the words of the command string, the rest names the shell's own
    positional parameters."""
    if not shell:
        return (list(args) if isinstance(args, (list, tuple)) else args), None
    try:
        if isinstance(args, str):
            return shlex.split(args), []
        return (shlex.split(args[0]) if args else []), list(args[1:])
    except ValueError:
        return None, None


def _wid_of(args):
    if isinstance(args, str) or (
            isinstance(args, (list, tuple)) and len(args) >= 1 and
            isinstance(args[0], str) and ' --wid ' in args[0]):
        args = _worker_argv(args, True)[0]
    if isinstance(args, (list, tuple)):
        for i, a in enumerate(args):
            if a == '--wid' and i + 1 < len(args):
                try:
                    return int(args[i + 1])
                except ValueError:
                    return None
    return None


def execute(case):
    if "token" in case:
        from vfw import live
        return live.execute_live(case, ('C13:live',))
    if "cmd_tokens" in case:
        return execute_argv(case)
    return execute_hist(case)


def replay(case):
    return execute(case)[0]


# ---------------------------------------------------------------------------

def _argv_strategy():
    from hypothesis import strategies as st
    lit_alpha = st.sampled_from(list(" \t'\"\\$()aZ9-_=/.é☃#;&|*{}"))
    safe = st.text(alphabet=SAFE, min_size=1, max_size=6)

    def lit():
        return st.text(alphabet=lit_alpha, min_size=0, max_size=6).filter(
            lambda s: not REF_RE.search(s)).map(lambda s: ['lit', s])

    unknown = st.sampled_from(
        ['$(circus.nosuchvar)', '((circus.env.UNDEFINED_X))', '$(other.wid)',
         '$(circus wid)', '$circus.wid', '$(circus.)', '((circus.wid)',
         '$(wid)', '${circus.wid}', '$(circus.sockets.nosuch)',
         '$$', '$', '$(', '(())']).map(lambda s: ['unknown', s])

    @st.composite
    def case(draw):
        unsafe = st.sampled_from(['a b', '--workers 4 --bind 0.0.0.0:80',
                                  "x 'y z' w", 'p\\ q', '"dq v"', ' lead',
                                  'tab\tsep'])
        env = draw(st.dictionaries(
            st.sampled_from(['VA', 'VB', 'PATHX', 'X1']),
            st.one_of(safe, safe, unsafe, st.just('')), max_size=3))
        socks = draw(st.dictionaries(st.sampled_from(['web', 'api']),
                                     st.integers(3, 99), max_size=2))
        refnames = ['wid', 'working_dir'] + \
            ['env.' + kk for kk in env] + ['sockets.' + kk for kk in socks]

        def ref():
            return st.tuples(st.just('ref'), st.sampled_from(refnames),
                             st.integers(0, 1), st.integers(0, 2)).map(list)

        def token(allow_arbitrary):
            pieces = st.lists(st.one_of(lit(), lit(), ref(), unknown),
                              min_size=1, max_size=3)
            return st.fixed_dictionaries({"pieces": pieces,
                                          "style": st.integers(0, 2)})
        form = draw(st.sampled_from([None, 'list', 'list', 'string']))
        first = {"pieces": [['lit', draw(st.sampled_from(
            ['prog', '/usr/bin/my prog', 'p']))]],
            "style": draw(st.integers(0, 2))}
        c = {"wid": draw(st.integers(1, 12)),
             "working_dir": draw(st.sampled_from(['/tmp', '/srv/app_1'])),
             "shell": draw(st.sampled_from([False, False, True])),
             "env": env, "sockets": socks,
             "cmd_tokens": [first] + draw(st.lists(token(False),
                                                   max_size=4)),
             "args_form": form,
             "args_tokens": draw(st.lists(token(True), max_size=4))
             if form else []}
        # a piece sequence must not create reference syntax by adjacency,
        # and the bare-backslash style cannot express every text
        for tok in c["cmd_tokens"] + c["args_tokens"]:
            lits = ''.join(p[1] for p in tok["pieces"] if p[0] == 'lit')
            src = ''.join(render_piece(p, _dummy(c), True)[0]
                          for p in tok["pieces"])
            n_refs = len(re.findall(
                r'\$\(circus\.[\w\.\-]+\)|\(\(circus\.[\w\.\-]+\)\)', src,
                re.I))
            want = len([p for p in tok["pieces"] if p[0] == 'ref'])
            unk = len([p for p in tok["pieces"] if p[0] == 'unknown' and
                       re.fullmatch(r'\$\(circus\.[\w\.\-]+\)|'
                                    r'\(\(circus\.[\w\.\-]+\)\)', p[1],
                                    re.I)])
            if n_refs != want + unk or '$WID' in src:
                tok["pieces"] = [p for p in tok["pieces"] if p[0] != 'lit'] \
                    or [['lit', 'x']]
        return c
    return case()


def _dummy(c):
    v = {"wid": c["wid"], "working_dir": c["working_dir"],
         "shell": c["shell"]}
    for kk, vv in c["env"].items():
        v["env." + kk.lower()] = vv
    for kk, vv in c["sockets"].items():
        v["sockets." + kk.lower()] = vv
    return v


def _hist_strategy():
    from hypothesis import strategies as st
    extra = st.fixed_dictionaries({}, optional={
        "working_dir": st.sampled_from(['/tmp', '/']),
        "env": st.dictionaries(st.sampled_from(['VERIF_A', 'VERIF_B', 'HOME']),
                               st.sampled_from(['1', 'two', '/x y']),
                               max_size=2),
        "copy_env": st.booleans(),
        "shell": st.sampled_from([True, True, False]),
        "shell_args": st.sampled_from([["S0", "S1"], "S0 S1", ["a b"]])})
    base = lifecycle_cases(
        requests=('incr', 'decr', 'set', 'restart', 'reload', 'stop',
                  'start'), extra_watcher_opts=extra, max_ops=24,
        kill_cmd=True, signal_cmd=True, respawn_false=True)

    @st.composite
    def case(draw):
        c = draw(base)
        for wc in c["watchers"]:
            wc["cmd"] = "worker --name %s --wid $(circus.wid)" % wc["name"]
            if not wc.get("copy_env") and draw(st.booleans()):
                # the command line refers to the watcher's own environment,
                # which `set` changes at run time
                wc["tagged"] = True
                wc["env"] = dict(wc.get("env") or {}, VERIF_A="1")
                wc["cmd"] = ("worker --name %s --tag $(circus.env.VERIF_A) "
                             "--wid $(circus.wid)" % wc["name"])
                for _ in range(draw(st.integers(0, 2))):
                    pos = draw(st.integers(0, len(c["ops"])))
                    opts = {"env": {"VERIF_A": draw(st.sampled_from(
                        ["two", "x9", "1"]))}}
                    extra = draw(st.sampled_from(
                        [None, None, ("numprocesses", 2),
                         ("warmup_delay", 0.05), ("graceful_timeout", 0.2)]))
                    if extra is not None:
                        # several options in one message (their order counts)
                        if draw(st.booleans()):
                            opts[extra[0]] = extra[1]
                        else:
                            opts = dict([extra] + list(opts.items()))
                    c["ops"].insert(pos, ["req", "set", {
                        "name": wc["name"], "options": opts}])
        c["daemon_env"] = {"VERIF_DAEMON_ONLY": "d1"}
        return c
    return case()


def plan(tier, seed):
    na = 2500 if tier == 'quick' else 40000
    nh = 500 if tier == 'quick' else 9000
    return ([{"kind": "argv", "seed": seed * 100 + i, "n": na}
             for i in range(6)] +
            [{"kind": "hist", "seed": seed * 100 + 50 + i, "n": nh}
             for i in range(8)] +
            [{"kind": "live", "seed": seed * 100 + 80 + i,
              "n": 3 if tier == 'quick' else 40} for i in range(2)])


def run_shard(spec):
    stats = Stats()
    if spec["kind"] == 'live':
        from vfw import live
        found = hyp_search(live.strategy(), execute, stats, spec["seed"],
                           spec["n"], known=spec["known"], max_rounds=2,
                           shrink=False)
        res = stats.as_dict()
        res["violations"] = found
        res["inconclusive"] = stats.counters.get('live-inconclusive', 0)
        return res
    strat = _argv_strategy() if spec["kind"] == 'argv' else _hist_strategy()
    found = hyp_search(strat, execute, stats, spec["seed"], spec["n"],
                       known=spec["known"])
    res = stats.as_dict()
    res["violations"] = found
    return res


def check_floors(counters, evaluations, tier):
    msgs = []
    for key, n in (('with-reference', 0.2 * counters.get('argv', 0)),
                   ('with-unknown-reference', 0.1 * counters.get('argv', 0)),
                   ('shell', 0.1 * counters.get('argv', 0)),
                   ('respawn', 0.3 * counters.get('hist', 0))):
        if counters.get(key, 0) < n:
            msgs.append("%s in only %d cases" % (key, counters.get(key, 0)))
    return msgs
