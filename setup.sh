#!/bin/sh
# Offline setup: make sure hypothesis is importable by /venv's python
# (installed into /verif/.deps, /venv itself is left untouched), then run
# the short kernel-conformance differential.
set -e
cd "$(dirname "$0")"
if ! /venv/bin/python -c "import hypothesis" 2>/dev/null; then
  mkdir -p .deps
  /venv/bin/pip install --no-index --find-links /opt/veriftools/wheels \
      --target .deps hypothesis >/dev/null
fi
if ! PYTHONPATH=.deps /venv/bin/python -c "import atheris" 2>/dev/null; then
  mkdir -p .deps
  /venv/bin/pip install --no-index --find-links /opt/veriftools/wheels \
      --target .deps atheris >/dev/null 2>&1 || echo "atheris not installable: coverage-guided shards will be skipped"
fi
PYTHONPATH=.deps /venv/bin/python -c "import hypothesis; print('hypothesis', hypothesis.__version__)"
if [ -f vfw/conformance.py ]; then
  PYTHONPATH=.deps:. /venv/bin/python -m vfw.conformance --quick
fi
